#!/bin/bash
# Offline setup after a fresh restore: nothing to fetch; warm the Go build cache by building the harness once.
set -u
export GOFLAGS=-mod=mod GOPROXY=off GOSUMDB=off GOTOOLCHAIN=local TZ=UTC
cd /verif
mkdir -p build bin evidence replays
chmod +x check
# warm plain, race and cmd builds (each check rebuilds anyway)
VERIF_WARM=1 ./check WARM quick >/dev/null 2>&1 || true
exit 0

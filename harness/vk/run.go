//go:build verif

package vk

import (
	"encoding/json"
	"fmt"
	"os"
	"path/filepath"
	"runtime"
	"runtime/debug"
	"sort"
	"strconv"
	"strings"
	"sync"
	"sync/atomic"
	"time"
)

const (
	Root = "/verif"
)

// Finding is one entry of known_findings.json.
type Finding struct {
	Property string `json:"property"`
	Key      string `json:"key"`
	Status   string `json:"status"` // known | fixed
	What     string `json:"what"`
	Witness  any    `json:"witness,omitempty"`
	Commit   string `json:"commit,omitempty"`
}

// Run is one invocation of one property check.
type Run struct {
	Prop    string
	Tier    string // quick | thorough
	Seed    int64
	Level   string
	Workers int

	ReplayPhase string
	ReplayIdx   int
	Replaying   bool

	mu          sync.Mutex
	counters    map[string]int64
	maxes       map[string]int64
	distinct    map[uint64]struct{}
	sets        map[string]map[string]struct{}
	samples     []any
	sampleKinds map[string]int
	violations  int64
	printed     int
	knownHits   map[string]int64
	known       map[string]Finding
	assumptions []string
	rule        string
	exhaustive  *bool
	extra       map[string]any
	requires    []require
	inconclusive []string
	start       time.Time
}

type require struct {
	key string
	min int64
}

func getenvInt(k string, def int64) int64 {
	if v := os.Getenv(k); v != "" {
		if n, err := strconv.ParseInt(v, 10, 64); err == nil {
			return n
		}
	}
	return def
}

// NewRun creates the run state, loads known findings, starts the global watchdog.
func NewRun(prop, tier, level string) *Run {
	r := &Run{
		Prop: prop, Tier: tier, Level: level,
		Seed:        getenvInt("VERIF_SEED", 1),
		Workers:     int(getenvInt("VERIF_WORKERS", int64(runtime.NumCPU()))),
		ReplayIdx:   -1,
		counters:    map[string]int64{},
		maxes:       map[string]int64{},
		distinct:    map[uint64]struct{}{},
		sets:        map[string]map[string]struct{}{},
		sampleKinds: map[string]int{},
		knownHits:   map[string]int64{},
		known:       map[string]Finding{},
		extra:       map[string]any{},
		start:       time.Now(),
	}
	if r.Workers < 1 {
		r.Workers = 1
	}
	if tier == "quick" && r.Workers > 8 {
		// quick checks may be run side by side; leave room
		r.Workers = 8
	}
	data, err := os.ReadFile(filepath.Join(Root, "known_findings.json"))
	if err == nil {
		var fs []Finding
		if err := json.Unmarshal(data, &fs); err != nil {
			r.Inconclusive("known_findings.json unreadable: " + err.Error())
		}
		for _, f := range fs {
			if f.Property == prop && f.Status == "known" {
				r.known[f.Key] = f
			}
		}
	}
	return r
}

func (r *Run) Thorough() bool { return r.Tier == "thorough" }

// N picks a case count by tier.
func (r *Run) N(quick, thorough int) int {
	if r.Thorough() {
		return thorough
	}
	return quick
}

func (r *Run) SetRule(s string)      { r.rule = s }
func (r *Run) Assume(s ...string)    { r.assumptions = append(r.assumptions, s...) }
func (r *Run) SetExhaustive(b bool)  { r.exhaustive = &b }
func (r *Run) SetExtra(k string, v any) {
	r.mu.Lock()
	r.extra[k] = v
	r.mu.Unlock()
}

// Require declares a coverage floor: if the counter/set ends below min the run is inconclusive.
func (r *Run) Require(key string, min int64) { r.requires = append(r.requires, require{key, min}) }

func (r *Run) Inconclusive(reason string) {
	r.mu.Lock()
	r.inconclusive = append(r.inconclusive, reason)
	r.mu.Unlock()
}

// StartWatchdog makes the whole run inconclusive (exit 3) if it exceeds d.
func (r *Run) StartWatchdog(d time.Duration) {
	go func() {
		time.Sleep(d)
		buf := make([]byte, 1<<20)
		n := runtime.Stack(buf, true)
		_ = os.MkdirAll(filepath.Join(Root, "build"), 0o755)
		_ = os.WriteFile(filepath.Join(Root, "build", r.Prop+".watchdog.txt"), buf[:n], 0o644)
		if atomic.LoadInt64(&r.violations) > 0 {
			// violations were already reported (with replay files); the run just could not finish
			fmt.Printf("SUMMARY property=%s tier=%s seed=%d violations=%d (run stopped by watchdog after %s)\n", r.Prop, r.Tier, r.Seed, atomic.LoadInt64(&r.violations), d)
			os.Exit(1)
		}
		fmt.Printf("INCONCLUSIVE property=%s reason=watchdog-%s\n", r.Prop, d)
		os.Exit(3)
	}()
}

// Case is the per-case handle given to monitors.
type Case struct {
	R     *Run
	Phase string
	Idx   int
	Rng   *RNG

	cnt  map[string]int64
	max  map[string]int64
	dist []uint64
	sets [][2]string
}

func (c *Case) Thorough() bool { return c.R.Thorough() }

func (c *Case) Count(key string, n int) { c.cnt[key] += int64(n) }
func (c *Case) Eval(n int)               { c.cnt["evaluations"] += int64(n) }
func (c *Case) Max(key string, v int64) {
	if v > c.max[key] {
		c.max[key] = v
	}
}

// Nontrivial records one distinct non-trivial case identified by key.
func (c *Case) Nontrivial(key string) { c.dist = append(c.dist, SeedOf(key)) }

// Seen adds a member to a named set whose size is reported in the evidence.
func (c *Case) Seen(set, member string) { c.sets = append(c.sets, [2]string{set, member}) }

// Sample keeps a few written-out cases per kind for the evidence file.
func (c *Case) Sample(kind string, v any) {
	r := c.R
	r.mu.Lock()
	if r.sampleKinds[kind] < 2 && len(r.samples) < 24 {
		r.sampleKinds[kind]++
		r.samples = append(r.samples, map[string]any{"kind": kind, "phase": c.Phase, "case": c.Idx, "value": v})
	}
	r.mu.Unlock()
}

func (c *Case) flush() {
	r := c.R
	r.mu.Lock()
	for k, v := range c.cnt {
		r.counters[k] += v
	}
	for k, v := range c.max {
		if v > r.maxes[k] {
			r.maxes[k] = v
		}
	}
	for _, d := range c.dist {
		r.distinct[d] = struct{}{}
	}
	for _, s := range c.sets {
		m := r.sets[s[0]]
		if m == nil {
			m = map[string]struct{}{}
			r.sets[s[0]] = m
		}
		m[s[1]] = struct{}{}
	}
	r.mu.Unlock()
}

// Fail reports a refuting observation. findingKey names the known finding whose defect model the
// observation matches exactly ("" if none); it is a violation unless known_findings.json lists that
// key for this property with status "known".
func (c *Case) Fail(findingKey, what string, detail any) {
	r := c.R
	if findingKey != "" {
		r.mu.Lock()
		_, ok := r.known[findingKey]
		if ok {
			r.knownHits[findingKey]++
		}
		r.mu.Unlock()
		if ok {
			return
		}
	}
	n := atomic.AddInt64(&r.violations, 1)
	if n > 25 {
		return
	}
	dir := filepath.Join(Root, "replays", r.Prop)
	_ = os.MkdirAll(dir, 0o755)
	path := filepath.Join(dir, fmt.Sprintf("%d-%s-%d.json", r.Seed, c.Phase, c.Idx))
	rec := map[string]any{
		"property": r.Prop, "tier": r.Tier, "seed": r.Seed, "phase": c.Phase, "case": c.Idx,
		"what": what, "finding_key": findingKey, "detail": detail,
	}
	data, err := json.MarshalIndent(rec, "", " ")
	if err != nil {
		data = []byte(fmt.Sprintf("{\"property\":%q,\"seed\":%d,\"phase\":%q,\"case\":%d,\"what\":%q}", r.Prop, r.Seed, c.Phase, c.Idx, what))
	}
	_ = os.WriteFile(path, data, 0o644)
	r.mu.Lock()
	fmt.Printf("VIOLATION property=%s replay=%s\n", r.Prop, path)
	fmt.Printf("  what: %s\n", trunc(what, 600))
	r.mu.Unlock()
}

func trunc(s string, n int) string {
	if len(s) > n {
		return s[:n] + "…"
	}
	return s
}

// Phase runs n independent cases on the worker pool. Each case has its own PRNG.
func (r *Run) Phase(name string, n int, fn func(c *Case)) {
	if r.Replaying {
		if name != r.ReplayPhase {
			return
		}
		r.runCase(name, r.ReplayIdx, fn)
		return
	}
	var next int64 = -1
	var wg sync.WaitGroup
	w := r.Workers
	if w > n {
		w = n
	}
	for i := 0; i < w; i++ {
		wg.Add(1)
		go func() {
			defer wg.Done()
			for {
				idx := int(atomic.AddInt64(&next, 1))
				if idx >= n {
					return
				}
				r.runCase(name, idx, fn)
			}
		}()
	}
	wg.Wait()
	r.mu.Lock()
	r.counters["phase_cases:"+name] += int64(n)
	r.mu.Unlock()
}

func (r *Run) runCase(name string, idx int, fn func(c *Case)) {
	c := &Case{R: r, Phase: name, Idx: idx, Rng: NewRNG(SeedOf(r.Seed, r.Prop, name, idx)),
		cnt: map[string]int64{}, max: map[string]int64{}}
	defer c.flush()
	defer func() {
		if p := recover(); p != nil {
			c.Fail("", fmt.Sprintf("panic while running case: %v", p), map[string]any{
				"panic": fmt.Sprint(p), "stack": string(debug.Stack()),
			})
		}
	}()
	fn(c)
}

// CaseFor returns a case handle for (phase, idx) outside Phase (used when failures are found by a
// supervising loop, e.g. child processes). The caller must call Done.
func (r *Run) CaseFor(phase string, idx int) *Case {
	return &Case{R: r, Phase: phase, Idx: idx, Rng: NewRNG(SeedOf(r.Seed, r.Prop, phase, idx)), cnt: map[string]int64{}, max: map[string]int64{}}
}

// Done merges the case's counters into the run.
func (c *Case) Done() { c.flush() }

// Counter returns the current merged counter value.
func (r *Run) Counter(k string) int64 {
	r.mu.Lock()
	defer r.mu.Unlock()
	return r.counters[k]
}

func (r *Run) SetSize(k string) int {
	r.mu.Lock()
	defer r.mu.Unlock()
	return len(r.sets[k])
}

// Finish writes the evidence file and exits with the verdict.
func (r *Run) Finish() {
	wall := time.Since(r.start).Seconds()
	cov := map[string]any{}
	r.mu.Lock()
	keys := make([]string, 0, len(r.counters))
	for k := range r.counters {
		keys = append(keys, k)
	}
	sort.Strings(keys)
	for _, k := range keys {
		cov[k] = r.counters[k]
	}
	for k, v := range r.maxes {
		cov["max:"+k] = v
	}
	for k, m := range r.sets {
		cov["distinct:"+k] = len(m)
		if len(m) <= 40 {
			ms := make([]string, 0, len(m))
			for s := range m {
				ms = append(ms, s)
			}
			sort.Strings(ms)
			cov["members:"+k] = ms
		}
	}
	for k, v := range r.extra {
		cov[k] = v
	}
	cov["evaluations"] = r.counters["evaluations"]
	cov["distinct_nontrivial"] = len(r.distinct)
	cov["rule"] = r.rule
	if len(r.samples) == 0 {
		r.samples = append(r.samples, "no sample recorded")
	}
	cov["samples"] = r.samples
	if r.exhaustive != nil {
		cov["exhaustive"] = *r.exhaustive
	}
	kh := map[string]int64{}
	for k, v := range r.knownHits {
		kh[k] = v
	}
	cov["known_finding_hits"] = kh
	viol := atomic.LoadInt64(&r.violations)
	incon := append([]string(nil), r.inconclusive...)
	for _, q := range r.requires {
		var have int64
		if strings.HasPrefix(q.key, "distinct:") {
			have = int64(len(r.sets[strings.TrimPrefix(q.key, "distinct:")]))
		} else if strings.HasPrefix(q.key, "max:") {
			have = r.maxes[strings.TrimPrefix(q.key, "max:")]
		} else if q.key == "distinct_nontrivial" {
			have = int64(len(r.distinct))
		} else {
			have = r.counters[q.key]
		}
		if have < q.min && !r.Replaying {
			incon = append(incon, fmt.Sprintf("coverage-floor %s=%d<%d", q.key, have, q.min))
		}
	}
	r.mu.Unlock()

	ev := map[string]any{
		"property_id": r.Prop,
		"tier":        r.Tier,
		"seed":        r.Seed,
		"level":       r.Level,
		"coverage":    cov,
		"assumptions": r.assumptions,
		"wall_s":      wall,
		"violations":  viol,
	}
	if len(incon) > 0 {
		ev["inconclusive"] = incon
	}
	if !r.Replaying {
		data, _ := json.MarshalIndent(ev, "", " ")
		_ = os.MkdirAll(filepath.Join(Root, "evidence"), 0o755)
		tmp := filepath.Join(Root, "evidence", "."+r.Prop+".json.tmp")
		_ = os.WriteFile(tmp, data, 0o644)
		_ = os.Rename(tmp, filepath.Join(Root, "evidence", r.Prop+".json"))
	}

	for k, n := range kh {
		f := r.known[k]
		fmt.Printf("KNOWN-FINDING: property=%s key=%s hits=%d %s\n", r.Prop, k, n, f.What)
	}
	fmt.Printf("SUMMARY property=%s tier=%s seed=%d evaluations=%d distinct_nontrivial=%d violations=%d wall_s=%.1f\n",
		r.Prop, r.Tier, r.Seed, r.counters["evaluations"], len(r.distinct), viol, wall)
	if viol > 0 {
		os.Exit(1)
	}
	if len(incon) > 0 {
		for _, s := range incon {
			fmt.Printf("INCONCLUSIVE property=%s reason=%s\n", r.Prop, strings.ReplaceAll(s, " ", "_"))
		}
		os.Exit(3)
	}
	os.Exit(0)
}

// LoadReplay configures the run to re-execute the single case recorded in path.
func (r *Run) LoadReplay(path string) error {
	data, err := os.ReadFile(path)
	if err != nil {
		return err
	}
	var rec struct {
		Property string `json:"property"`
		Tier     string `json:"tier"`
		Seed     int64  `json:"seed"`
		Phase    string `json:"phase"`
		Case     int    `json:"case"`
	}
	if err := json.Unmarshal(data, &rec); err != nil {
		return err
	}
	if rec.Property != r.Prop {
		return fmt.Errorf("replay file is for %s, not %s", rec.Property, r.Prop)
	}
	r.Seed = rec.Seed
	if rec.Tier != "" {
		r.Tier = rec.Tier
	}
	r.ReplayPhase = rec.Phase
	r.ReplayIdx = rec.Case
	r.Replaying = true
	r.Workers = 1
	return nil
}

//go:build verif

// Package vk is the core of the /verif runtime-monitoring harness: deterministic PRNG,
// case/phase scheduling, evidence, replay files, known-findings matching, watchdog.
package vk

import (
	"hash/fnv"
	"math"
)

// RNG is a splitmix64 generator; every case gets its own, derived from
// (VERIF_SEED, property, phase, case index), so a case can be replayed in isolation.
type RNG struct{ s uint64 }

func NewRNG(seed uint64) *RNG { return &RNG{s: seed} }

func SeedOf(parts ...any) uint64 {
	h := fnv.New64a()
	for _, p := range parts {
		switch v := p.(type) {
		case string:
			_, _ = h.Write([]byte(v))
		case int:
			var b [8]byte
			u := uint64(v)
			for i := 0; i < 8; i++ {
				b[i] = byte(u >> (8 * i))
			}
			_, _ = h.Write(b[:])
		case int64:
			var b [8]byte
			u := uint64(v)
			for i := 0; i < 8; i++ {
				b[i] = byte(u >> (8 * i))
			}
			_, _ = h.Write(b[:])
		case uint64:
			var b [8]byte
			for i := 0; i < 8; i++ {
				b[i] = byte(v >> (8 * i))
			}
			_, _ = h.Write(b[:])
		}
		_, _ = h.Write([]byte{0xff})
	}
	return h.Sum64()
}

func (r *RNG) U64() uint64 {
	r.s += 0x9e3779b97f4a7c15
	z := r.s
	z = (z ^ (z >> 30)) * 0xbf58476d1ce4e5b9
	z = (z ^ (z >> 27)) * 0x94d049bb133111eb
	return z ^ (z >> 31)
}

// Intn returns a value in [0,n). n<=0 returns 0.
func (r *RNG) Intn(n int) int {
	if n <= 0 {
		return 0
	}
	return int(r.U64() % uint64(n))
}

// Range returns a value in [lo,hi].
func (r *RNG) Range(lo, hi int) int {
	if hi <= lo {
		return lo
	}
	return lo + r.Intn(hi-lo+1)
}

func (r *RNG) I64n(n int64) int64 {
	if n <= 0 {
		return 0
	}
	return int64(r.U64() % uint64(n))
}

func (r *RNG) Bool() bool { return r.U64()&1 == 1 }

// Chance returns true with probability num/den.
func (r *RNG) Chance(num, den int) bool { return r.Intn(den) < num }

func (r *RNG) Float() float64 { return float64(r.U64()>>11) / float64(1<<53) }

func (r *RNG) Perm(n int) []int {
	p := make([]int, n)
	for i := range p {
		p[i] = i
	}
	for i := n - 1; i > 0; i-- {
		j := r.Intn(i + 1)
		p[i], p[j] = p[j], p[i]
	}
	return p
}

func Pick[T any](r *RNG, xs []T) T {
	return xs[r.Intn(len(xs))]
}

func Shuffle[T any](r *RNG, xs []T) {
	for i := len(xs) - 1; i > 0; i-- {
		j := r.Intn(i + 1)
		xs[i], xs[j] = xs[j], xs[i]
	}
}

// Subset returns each element with probability 1/2.
func Subset[T any](r *RNG, xs []T) []T {
	var out []T
	for _, x := range xs {
		if r.Bool() {
			out = append(out, x)
		}
	}
	return out
}

// Bytes returns n arbitrary bytes.
func (r *RNG) Bytes(n int) []byte {
	b := make([]byte, n)
	for i := range b {
		b[i] = byte(r.U64())
	}
	return b
}

// AlmostEqual compares floats with relative tolerance, NaN==NaN, Inf==Inf.
func AlmostEqual(a, b, rel float64) bool {
	if math.IsNaN(a) || math.IsNaN(b) {
		return math.IsNaN(a) && math.IsNaN(b)
	}
	if math.IsInf(a, 0) || math.IsInf(b, 0) {
		return a == b
	}
	if a == b {
		return true
	}
	d := math.Abs(a - b)
	m := math.Max(math.Abs(a), math.Abs(b))
	return d <= rel*m || d <= 1e-12
}

//go:build verif

// Command vharness runs one property monitor: vharness <ID> <quick|thorough> [--replay file].
package main

import (
	"fmt"
	"os"

	"github.com/tdakkota/docker-logql/internal/zzverif/props"
)

func main() {
	if len(os.Args) < 3 {
		fmt.Fprintln(os.Stderr, "usage: vharness <ID> <quick|thorough> [--replay file]")
		os.Exit(2)
	}
	id, tier := os.Args[1], os.Args[2]
	replay := ""
	for i := 3; i < len(os.Args); i++ {
		if os.Args[i] == "--replay" && i+1 < len(os.Args) {
			replay = os.Args[i+1]
			i++
		}
	}
	if tier != "quick" && tier != "thorough" {
		fmt.Fprintln(os.Stderr, "tier must be quick or thorough")
		os.Exit(2)
	}
	os.Exit(props.Main(id, tier, replay))
}

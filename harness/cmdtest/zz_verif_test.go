//go:build verif

package main

import (
	"bytes"
	"os"
	"strings"
	"testing"
	"time"

	"github.com/tdakkota/docker-logql/internal/lokiapi"
	"github.com/tdakkota/docker-logql/internal/zzverif/props"
)

// TestVerifHarness is the entry point of the /verif harness for the monitors that need the
// unexported functions of package main (renderResult, parseTimeRange, parseStep, parseTimestamp).
// It only runs when VERIF_PROP is set, and exits with the monitor's verdict.
func TestVerifHarness(t *testing.T) {
	id := os.Getenv("VERIF_PROP")
	if id == "" {
		t.Skip("VERIF_PROP not set")
	}
	tier := os.Getenv("VERIF_TIER_ARG")
	if tier == "" {
		tier = "quick"
	}
	replay := ""
	args := strings.Fields(os.Getenv("VERIF_ARGS"))
	for i := 0; i+1 < len(args); i++ {
		if args[i] == "--replay" {
			replay = args[i+1]
		}
	}

	optTime := func(s *string) (o lokiapi.OptLokiTime) {
		if s != nil {
			o.SetTo(lokiapi.LokiTime(*s))
		}
		return o
	}
	optDur := func(s *string) (o lokiapi.OptPrometheusDuration) {
		if s != nil {
			o.SetTo(lokiapi.PrometheusDuration(*s))
		}
		return o
	}
	props.Cmd = &props.CmdHooks{
		Render: func(timestamp, container, color bool, data any) ([]byte, error) {
			var buf bytes.Buffer
			err := renderResult(&buf, renderOptions{timestamp: timestamp, container: container, color: color}, data.(lokiapi.QueryResponseData))
			return buf.Bytes(), err
		},
		TimeRange: func(now time.Time, start, end, since *string) (time.Time, time.Time, error) {
			return parseTimeRange(now, optTime(start), optTime(end), optDur(since))
		},
		Step: func(step *string, start, end time.Time) (time.Duration, error) {
			return parseStep(optDur(step), start, end)
		},
		Timestamp: func(value string, def time.Time) (time.Time, error) {
			return parseTimestamp(lokiapi.LokiTime(value), def)
		},
	}
	os.Exit(props.Main(id, tier, replay))
}

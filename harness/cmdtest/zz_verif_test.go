//go:build verif

package main

import (
	"bytes"
	"os"
	"strings"
	"testing"
	"time"

	"github.com/tdakkota/docker-logql/internal/lokiapi"
	"github.com/tdakkota/docker-logql/internal/zzverif/props"
)

// TestVerifHarness is the entry point of the /verif harness for the monitors that need the
// unexported functions of package main (renderResult, parseTimeRange, parseStep, parseTimestamp).
// It only runs when VERIF_PROP is set, and exits with the monitor's verdict.
func TestVerifHarness(t *testing.T) {
	id := os.Getenv("VERIF_PROP")
	if id == "" {
		t.Skip("VERIF_PROP not set")
	}
	tier := os.Getenv("VERIF_TIER_ARG")
	if tier == "" {
		tier = "quick"
	}
	replay := ""
	args := strings.Fields(os.Getenv("VERIF_ARGS"))
	for i := 0; i+1 < len(args); i++ {
		if args[i] == "--replay" {
			replay = args[i+1]
		}
	}

	optTime := func(s *string) (o lokiapi.OptLokiTime) {
		if s != nil {
			o.SetTo(lokiapi.LokiTime(*s))
		}
		return o
	}
	optDur := func(s *string) (o lokiapi.OptPrometheusDuration) {
		if s != nil {
			o.SetTo(lokiapi.PrometheusDuration(*s))
		}
		return o
	}
	// viaFlags hands the values to the flag objects of the real `query` command (pflag's Set, as a
	// command line would) and reads back what the command's RunE would pass to the parsers.
	viaFlags := func(start, end, since, step *string) (st, en lokiapi.OptLokiTime, si, sp lokiapi.OptPrometheusDuration, ok bool) {
		fs := queryCmd(nil).Flags()
		for name, v := range map[string]*string{"start": start, "end": end, "since": since, "step": step} {
			if v != nil {
				if err := fs.Set(name, *v); err != nil {
					return st, en, si, sp, false
				}
			}
		}
		tf := func(name string) (lokiapi.OptLokiTime, bool) {
			f := fs.Lookup(name)
			if f == nil {
				return lokiapi.OptLokiTime{}, false
			}
			v, ok := f.Value.(*APIFlag[*lokiapi.OptLokiTime, lokiapi.LokiTime])
			if !ok {
				return lokiapi.OptLokiTime{}, false
			}
			return *v.Val, true
		}
		df := func(name string) (lokiapi.OptPrometheusDuration, bool) {
			f := fs.Lookup(name)
			if f == nil {
				return lokiapi.OptPrometheusDuration{}, false
			}
			v, ok := f.Value.(*APIFlag[*lokiapi.OptPrometheusDuration, lokiapi.PrometheusDuration])
			if !ok {
				return lokiapi.OptPrometheusDuration{}, false
			}
			return *v.Val, true
		}
		var o1, o2, o3, o4 bool
		st, o1 = tf("start")
		en, o2 = tf("end")
		si, o3 = df("since")
		sp, o4 = df("step")
		if o1 && o2 && o3 && o4 {
			props.CmdViaFlags.Store(true)
		}
		return st, en, si, sp, o1 && o2 && o3 && o4
	}
	props.Cmd = &props.CmdHooks{
		Render: func(timestamp, container, color bool, data any) ([]byte, error) {
			var buf bytes.Buffer
			err := renderResult(&buf, renderOptions{timestamp: timestamp, container: container, color: color}, data.(lokiapi.QueryResponseData))
			return buf.Bytes(), err
		},
		TimeRange: func(now time.Time, start, end, since *string) (time.Time, time.Time, error) {
			if st, en, si, _, ok := viaFlags(start, end, since, nil); ok {
				return parseTimeRange(now, st, en, si)
			}
			return parseTimeRange(now, optTime(start), optTime(end), optDur(since))
		},
		Step: func(step *string, start, end time.Time) (time.Duration, error) {
			if _, _, _, sp, ok := viaFlags(nil, nil, nil, step); ok {
				return parseStep(sp, start, end)
			}
			return parseStep(optDur(step), start, end)
		},
		Timestamp: func(value string, def time.Time) (time.Time, error) {
			return parseTimestamp(lokiapi.LokiTime(value), def)
		},
	}
	os.Exit(props.Main(id, tier, replay))
}

//go:build verif

package props

import (
	"context"
	"fmt"
	"io"
	"syscall"
	"time"

	"github.com/tdakkota/docker-logql/internal/zzverif/vk"
)

// phaseFlaky: a transfer that breaks ONCE (the first log request of one container is cut inside a frame --
// connection reset, body ending early, the query's context cancelled at that moment) in front of a daemon
// that would serve a second request whole and honours since / until. Whatever the tool does about it
// (fail the query, ask again), what it answers without an error is the answer it gives when nothing
// breaks: no record lost, none twice. Shared by C01 (exactly the matching lines), C04 (every record
// exactly once), C08 (entries = matching records, the first L of them), C09 / C10 (window counts,
// per-series totals).
func phaseFlaky(r *vk.Run, prop string) {
	r.Phase("flaky", r.N(300, 30000), func(c *vk.Case) {
		rng := c.Rng
		n := rng.Range(1, 3)
		var inv []CSpec
		for i := 0; i < n; i++ {
			cs := CSpec{ID: fmt.Sprintf("id%d", i), Name: fmt.Sprintf("/c%d", i), Image: "img", State: "running", Labels: map[string]string{"job": "j"}}
			ts := c14T0 + int64(rng.Intn(3))*1e9
			for j := 0; j < rng.Range(4, 16); j++ {
				switch rng.Intn(4) {
				case 0: // the same instant as the record before (a burst, a coarse clock)
				case 1:
					ts += 250e6 // several records per second
				case 2:
					ts += 1e9
				default:
					ts += int64(rng.Intn(400e6)) + 1
				}
				cs.Frames = append(cs.Frames, Frame{Type: byte(1 + rng.Intn(2)), TS: ts, Body: fmt.Sprintf("req %d of c%d v=%d", j, i, j%5+1)})
			}
			inv = append(inv, cs)
		}
		victim := rng.Intn(n)
		starts, ends := FrameBounds(inv[victim].Frames)
		at := rng.Range(1, len(starts)-1) // at least one whole record precedes the break
		// inside the frame's payload (a stream that ends inside a frame HEADER is an accepted way for a log to
		// end, see C03; that is not the subject here)
		cut := starts[at] + 8 + rng.Range(1, ends[at]-starts[at]-9)
		kind := vk.Pick(rng, []string{"reset", "reset", "early-eof", "unexpected-eof", "cancel"})
		var queries []string
		switch prop {
		case "C01":
			queries = []string{`{container=~".+"} |= "req"`, `{container=~".+"} |~ "of c[0-9]" | drop msg`}
		case "C08":
			queries = []string{`{container=~".+"}`, `{container=~".+"} | drop msg`}
		case "C09":
			queries = []string{`count_over_time({container=~".+"}[5s])`, `sum by (container) (count_over_time({container=~".+"} | drop msg [3s]))`}
		default: // C04, C10
			queries = []string{`{container=~".+"} | drop msg`, `count_over_time({container=~".+"} | drop msg [20s])`, `sum by (container) (count_over_time({container=~".+"}[20s]))`}
		}
		limits := []int{-1}
		if prop == "C08" {
			total := 0
			for _, cs := range inv {
				total += len(cs.Frames)
			}
			limits = []int{-1, 2, total / 2, total - 1}
		}
		for _, q := range queries {
			for _, L := range limits {
				p := EvalP{Start: c14T0 - 5e9, End: c14T0 + 40e9, Step: 5 * time.Second, Limit: L}
				ref, rerr := func() (Result, error) {
					fd := newFakeDocker(inv)
					fd.FilterByTime = true
					return evalQuery(dockerQuerier(fd), q, p)
				}()
				fd := newFakeDocker(inv)
				fd.FilterByTime = true
				ctx, cancel := context.WithCancel(context.Background())
				pl := &fd.Containers[victim].Plan
				pl.FailAt, pl.FaultCalls = cut, 1
				switch kind {
				case "reset":
					pl.FailErr = fmt.Errorf("read tcp 127.0.0.1:2375: %w", syscall.ECONNRESET)
				case "early-eof":
					pl.FailErr = io.EOF
				case "unexpected-eof":
					pl.FailErr = io.ErrUnexpectedEOF
				default:
					// the user interrupts the query (or its deadline passes) right after the records before frame
					// `at` have been handed over; what the body says from then on is the context's error
					pl.FailAt, pl.FailErr = starts[at], context.Canceled
					pl.ReachAt, pl.OnReach = starts[at], cancel
				}
				data, err := newEngine(dockerQuerier(fd)).Eval(ctx, q, p.params())
				cancel()
				c.Eval(2)
				det := map[string]any{"query": q, "limit": L, "inventory": inv, "victim": inv[victim].ID, "cut_at_byte": cut, "inside_frame": at, "fault": kind, "log_requests": fd.Calls}
				if rerr != nil {
					c.Fail("", "fault-free evaluation failed: "+rerr.Error(), det)
					return
				}
				if err != nil {
					c.Count("flaky_queries_failed_loudly", 1)
					continue
				}
				got, _ := convertResult(data)
				if got.Canonical() != ref.Canonical() {
					det["answer"], det["fault_free_answer"] = trunc(got.Canonical(), 3000), trunc(ref.Canonical(), 3000)
					c.Fail("", fmt.Sprintf("%s (limit %d): the first log request of %s broke inside frame %d (%s); no error was reported, and the answer is not the one given when nothing breaks", q, L, inv[victim].ID, at, kind), det)
					return
				}
				c.Count("flaky_queries_answered_exactly", 1)
			}
		}
		c.Count("flaky_cases", 1)
		c.Seen("flaky_faults", kind)
		c.Nontrivial(fmt.Sprintf("flaky|%d", c.Idx))
	})
	r.Require("flaky_cases", 200)
}

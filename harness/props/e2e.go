//go:build verif

package props

import (
	"bytes"
	"context"
	"encoding/json"
	"fmt"
	"net"
	"net/http"
	"os"
	"os/exec"
	"path/filepath"
	"strings"
	"sync"
	"time"
)

// fakeDaemon is a minimal Docker Engine API on a unix socket: /_ping, /containers/json,
// /containers/<id>/logs. It records every logs request (id, since, until).
type fakeDaemon struct {
	Sock string
	inv  []CSpec
	// filter makes the daemon honour since/until (whole seconds, inclusive) like dockerd
	filter bool

	mu   sync.Mutex
	Reqs []LogsCall
	ln   net.Listener
	srv  *http.Server
}

func startFakeDaemon(inv []CSpec, filter bool) (*fakeDaemon, error) {
	dir, err := os.MkdirTemp("", "vfd")
	if err != nil {
		return nil, err
	}
	d := &fakeDaemon{Sock: filepath.Join(dir, "d.sock"), inv: inv, filter: filter}
	ln, err := net.Listen("unix", d.Sock)
	if err != nil {
		return nil, err
	}
	d.ln = ln
	mux := http.NewServeMux()
	mux.HandleFunc("/", d.handle)
	d.srv = &http.Server{Handler: mux}
	go func() { _ = d.srv.Serve(ln) }()
	return d, nil
}

func (d *fakeDaemon) Close() {
	ctx, cancel := context.WithTimeout(context.Background(), time.Second)
	defer cancel()
	_ = d.srv.Shutdown(ctx)
	_ = os.RemoveAll(filepath.Dir(d.Sock))
}

func (d *fakeDaemon) handle(w http.ResponseWriter, r *http.Request) {
	w.Header().Set("API-Version", "1.45")
	w.Header().Set("Docker-Experimental", "false")
	w.Header().Set("Ostype", "linux")
	path := r.URL.Path
	// strip version prefix
	if strings.HasPrefix(path, "/v1.") {
		if i := strings.Index(path[1:], "/"); i >= 0 {
			path = path[1+i:]
		}
	}
	switch {
	case path == "/_ping":
		w.Header().Set("Content-Type", "text/plain")
		_, _ = w.Write([]byte("OK"))
	case path == "/containers/json":
		// like the daemon: only running containers unless all=1|true; the label filter compares raw keys
		q := r.URL.Query()
		all := q.Get("all") == "1" || q.Get("all") == "true" || q.Get("all") == "True"
		var flt map[string]map[string]bool
		if f := q.Get("filters"); f != "" {
			_ = json.Unmarshal([]byte(f), &flt)
		}
		var out []any
	list:
		for _, c := range d.inv {
			if !all && c.State != "running" {
				continue
			}
			for want := range flt["label"] {
				k, v, hasV := strings.Cut(want, "=")
				if got, ok := c.Labels[k]; !ok || (hasV && got != v) {
					continue list
				}
			}
			out = append(out, c.container())
		}
		w.Header().Set("Content-Type", "application/json")
		if out == nil {
			_, _ = w.Write([]byte("[]"))
			return
		}
		_ = json.NewEncoder(w).Encode(out)
	case strings.HasPrefix(path, "/containers/") && strings.HasSuffix(path, "/logs"):
		id := strings.TrimSuffix(strings.TrimPrefix(path, "/containers/"), "/logs")
		q := r.URL.Query()
		d.mu.Lock()
		d.Reqs = append(d.Reqs, LogsCall{ID: id, Since: q.Get("since"), Until: q.Get("until")})
		d.mu.Unlock()
		for _, c := range d.inv {
			if c.ID == id {
				frames := c.Frames
				if d.filter {
					frames = filterFrames(frames, q.Get("since"), q.Get("until"))
				}
				w.Header().Set("Content-Type", "application/vnd.docker.multiplexed-stream")
				_, _ = w.Write(EncodeFrames(frames))
				return
			}
		}
		http.Error(w, `{"message":"no such container"}`, http.StatusNotFound)
	default:
		http.Error(w, `{"message":"not implemented by the fake daemon: `+path+`"}`, http.StatusNotFound)
	}
}

func (d *fakeDaemon) requests() []LogsCall {
	d.mu.Lock()
	defer d.mu.Unlock()
	return append([]LogsCall(nil), d.Reqs...)
}

type pluginRun struct {
	Stdout, Stderr []byte
	Exit           int
	TimedOut       bool
}

// runPlugin runs the built plugin binary: docker-logql logql query <args...>.
func runPlugin(d *fakeDaemon, timeout time.Duration, args ...string) (pluginRun, error) {
	bin := os.Getenv("VERIF_E2E_BIN")
	if bin == "" {
		return pluginRun{}, fmt.Errorf("VERIF_E2E_BIN not set")
	}
	if _, err := os.Stat(bin); err != nil {
		return pluginRun{}, err
	}
	ctx, cancel := context.WithTimeout(context.Background(), timeout)
	defer cancel()
	full := append([]string{"logql", "query"}, args...)
	cmd := exec.CommandContext(ctx, bin, full...)
	home, _ := os.MkdirTemp("", "vhome")
	defer os.RemoveAll(home)
	cmd.Env = []string{"DOCKER_HOST=unix://" + d.Sock, "HOME=" + home, "DOCKER_CONFIG=" + home, "TZ=UTC", "PATH=/usr/bin:/bin", "NO_COLOR=", "TERM=xterm"}
	var so, se bytes.Buffer
	cmd.Stdout, cmd.Stderr = &so, &se
	err := cmd.Run()
	pr := pluginRun{Stdout: so.Bytes(), Stderr: se.Bytes()}
	if ctx.Err() == context.DeadlineExceeded {
		pr.TimedOut = true
		return pr, nil
	}
	if err != nil {
		if ee, ok := err.(*exec.ExitError); ok {
			pr.Exit = ee.ExitCode()
			return pr, nil
		}
		return pr, err
	}
	return pr, nil
}

//go:build verif

package props

import (
	"os"
	"path/filepath"
	"regexp"
	"runtime"
	"sort"
	"strings"
	"sync"
	"time"

	"github.com/tdakkota/docker-logql/internal/zzverif/vk"
)

// orderGate forces the concurrent ContainerLogs calls of one SelectLogs to *complete* in a chosen
// order: every call blocks until all n calls have arrived, then they are let through one at a time,
// the next one only after the previous call has returned (plus a few scheduler yields so that the
// caller goroutine can store its result).
type orderGate struct {
	mu       sync.Mutex
	cond     *sync.Cond
	n        int
	pos      map[string]int // id -> position in the completion order
	arrived  int
	turn     int
	timedOut bool
	rounds   int
	timer    *time.Timer
	Observed []string // ids in the order their calls returned
}

func newOrderGate(order []string) *orderGate {
	g := &orderGate{n: len(order), pos: map[string]int{}}
	g.cond = sync.NewCond(&g.mu)
	for i, id := range order {
		g.pos[id] = i
	}
	return g
}

func (g *orderGate) attach(f *FakeDocker) {
	f.Gate = g.enter
	f.Done = g.leave
	// safety valve: if the calls never become concurrent (e.g. the code under test was changed to
	// open logs sequentially) do not deadlock; let everything through and record it.
	g.timer = time.AfterFunc(3*time.Second, func() {
		g.mu.Lock()
		if g.arrived < g.n && g.rounds == 0 {
			g.timedOut = true
			g.cond.Broadcast()
		}
		g.mu.Unlock()
	})
}

func (g *orderGate) enter(id string) {
	g.mu.Lock()
	defer g.mu.Unlock()
	p, ok := g.pos[id]
	if !ok {
		return
	}
	g.arrived++
	g.cond.Broadcast()
	for !g.timedOut && (g.arrived < g.n || g.turn != p) {
		g.cond.Wait()
	}
}

func (g *orderGate) leave(id string) {
	g.mu.Lock()
	if _, ok := g.pos[id]; ok {
		g.Observed = append(g.Observed, id)
	}
	g.mu.Unlock()
	// give the returning goroutine a chance to store its iterator before the next one is released
	for i := 0; i < 20; i++ {
		runtime.Gosched()
	}
	g.mu.Lock()
	g.turn++
	if g.turn >= g.n {
		// one SelectLogs round is complete; be ready for the next one of the same query
		g.turn = 0
		g.arrived = 0
		g.rounds++
		if g.timer != nil {
			g.timer.Stop() // the safety valve is only for the first round
		}
	}
	g.cond.Broadcast()
	g.mu.Unlock()
}

func (g *orderGate) observed() string {
	g.mu.Lock()
	defer g.mu.Unlock()
	obs := g.Observed
	if len(obs) > g.n {
		obs = obs[:g.n] // first round
	}
	return strings.Join(obs, ">")
}

// permutations returns all permutations of 0..n-1 (n small).
func permutations(n int) [][]int {
	var out [][]int
	p := make([]int, n)
	for i := range p {
		p[i] = i
	}
	var rec func(k int)
	rec = func(k int) {
		if k == n {
			out = append(out, append([]int(nil), p...))
			return
		}
		for i := k; i < n; i++ {
			p[k], p[i] = p[i], p[k]
			rec(k + 1)
			p[k], p[i] = p[i], p[k]
		}
	}
	rec(0)
	return out
}

// ---------------------------------------------------------------------------------------------
// race-detector log collection (GORACE log_path=/verif/build/race.<ID>)

var raceLineNo = regexp.MustCompile(`:\d+( \+0x[0-9a-f]+)?`)
var raceAddr = regexp.MustCompile(`0x[0-9a-f]+`)
var raceGID = regexp.MustCompile(`[Gg]oroutine \d+`)

// collectRaceReports reads the race detector's log files for this property, returns the number of
// report blocks and the de-duplicated reports (line numbers and addresses stripped).
func collectRaceReports(prop string) (blocks int, distinct []string) {
	files, _ := filepath.Glob(filepath.Join(vk.Root, "build", "race."+prop+".*"))
	seen := map[string]bool{}
	for _, f := range files {
		data, err := os.ReadFile(f)
		if err != nil {
			continue
		}
		for _, blk := range strings.Split(string(data), "==================") {
			if !strings.Contains(blk, "WARNING: DATA RACE") {
				continue
			}
			blocks++
			norm := raceLineNo.ReplaceAllString(blk, "")
			norm = raceAddr.ReplaceAllString(norm, "0x")
			norm = raceGID.ReplaceAllString(norm, "goroutine N")
			if !seen[norm] {
				seen[norm] = true
				distinct = append(distinct, strings.TrimSpace(blk))
			}
		}
	}
	sort.Strings(distinct)
	return
}

// raceEnabled reports whether this binary was built with -race (set by race_on.go / race_off.go).
var raceEnabled bool

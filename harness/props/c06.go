//go:build verif

package props

import (
	"math/big"
	"encoding/json"
	"fmt"
	"reflect"
	"regexp"
	"strconv"
	"strings"
	"time"
	"unicode/utf8"

	"github.com/tdakkota/docker-logql/internal/zzverif/vk"
)

func init() {
	register("C06", "exploration", 8*time.Minute, 60*time.Minute, runC06)
}

// ordered JSON value model: string | jNum | bool | nil | *jObj | []any
type jNum string

type jObj struct {
	Keys []string
	Vals map[string]any
}

func writeJ(sb *strings.Builder, v any) {
	switch t := v.(type) {
	case jNum:
		sb.WriteString(string(t))
	case *jObj:
		sb.WriteByte('{')
		for i, k := range t.Keys {
			if i > 0 {
				sb.WriteByte(',')
			}
			kb, _ := json.Marshal(k)
			sb.Write(kb)
			sb.WriteByte(':')
			writeJ(sb, t.Vals[k])
		}
		sb.WriteByte('}')
	case []any:
		sb.WriteByte('[')
		for i, x := range t {
			if i > 0 {
				sb.WriteByte(',')
			}
			writeJ(sb, x)
		}
		sb.WriteByte(']')
	default:
		b, _ := json.Marshal(v)
		sb.Write(b)
	}
}

func jText(v any) string {
	var sb strings.Builder
	writeJ(&sb, v)
	return sb.String()
}

var (
	c06Keys    = []string{"a", "b", "level", "status", "msgid", "req.path", "x-y", "with space", "Ünï", "k9", "_u", "9lead", "a/b", "q\"uote", "nested", "list", "n", "__typename", "__v", "--x"}
	c06Strings = []string{"", "v", "hello world", "with \"quotes\"", "back\\slash", "new\nline", "tab\there", "a=b", "ünïcödé 世界", "{\"not\":\"parsed\"}", "[1,2]", " lead", "trail ", "null", "true", "12", " ", "\x7f", "<b>&amp;</b>",
		// values that begin and end with what looks like syntax: the quotes, brackets, back quotes are part of the value
		"\"disk full\"", "\"\"", "\"", "\"a\" is not \"b\"", "'single'", "`raw`", "[bracketed]", "(paren)", "{brace}", "\\\"", "ends in backslash\\", "\"x", "x\""}
	c06Numbers = []string{"0", "1", "-1", "42", "200", "1.5", "-0.25", "1e3", "1E+2", "5e-1", "-0", "0.0", "123456789012", "9223372036854775807", "-9223372036854775808", "9007199254740993", "1700000000123456789", "-9007199254740993",
		"9223372036854775808", "-9223372036854775809", "18446744073709551616", "1.0", "3.14159", "100000000000000000000"}
)

func genJScalar(r *vk.RNG) any {
	switch r.Intn(10) {
	case 0, 1, 2, 3:
		return vk.Pick(r, c06Strings)
	case 4, 5, 6:
		return jNum(vk.Pick(r, c06Numbers))
	case 7:
		return r.Bool()
	case 8:
		return nil
	default:
		return "id" + strconv.Itoa(r.Intn(1000))
	}
}

func genJValue(r *vk.RNG, depth int) any {
	if depth <= 0 || r.Chance(3, 4) {
		return genJScalar(r)
	}
	if r.Bool() {
		n := r.Range(0, 3)
		arr := make([]any, n)
		for i := range arr {
			arr[i] = genJValue(r, depth-1)
		}
		return arr
	}
	return genJObj(r, depth-1, r.Range(0, 3))
}

func genJObj(r *vk.RNG, depth, n int) *jObj {
	o := &jObj{Vals: map[string]any{}}
	for len(o.Keys) < n {
		k := vk.Pick(r, c06Keys)
		if _, dup := o.Vals[k]; dup {
			continue
		}
		o.Keys = append(o.Keys, k)
		o.Vals[k] = genJValue(r, depth)
	}
	return o
}

// numEqual: both texts denote the same number.
// numEqual: the label text a denotes the written JSON number b. An integer that fits int64 is a value
// the engine can hold exactly, so it must come back exactly (9007199254740993 is not ...992); other
// numbers are compared as float64 (the only type left to hold them).
func numEqual(a, b string) bool {
	ra, ok1 := new(big.Rat).SetString(a)
	rb, ok2 := new(big.Rat).SetString(b)
	if ok1 && ok2 && ra.Cmp(rb) == 0 {
		return true
	}
	if ok2 && rb.IsInt() && rb.Num().IsInt64() {
		return false
	}
	fa, e1 := strconv.ParseFloat(a, 64)
	fb, e2 := strconv.ParseFloat(b, 64)
	return e1 == nil && e2 == nil && fa == fb
}

// jsonEqual: label text is JSON equal to the written value.
func jsonEqual(labelText string, v any) bool {
	var a, b any
	da := json.NewDecoder(strings.NewReader(labelText))
	if err := da.Decode(&a); err != nil {
		return false
	}
	db := json.NewDecoder(strings.NewReader(jText(v)))
	if err := db.Decode(&b); err != nil {
		return false
	}
	// nulls nested inside a composite value may be omitted (as a top-level null may be absent)
	return reflect.DeepEqual(stripNulls(a), stripNulls(b))
}

func stripNulls(v any) any {
	switch t := v.(type) {
	case map[string]any:
		out := map[string]any{}
		for k, x := range t {
			if x != nil {
				out[k] = stripNulls(x)
			}
		}
		return out
	case []any:
		out := []any{}
		for _, x := range t {
			if x != nil {
				out = append(out, stripNulls(x))
			}
		}
		return out
	}
	return v
}

// checkExposed checks one extracted value; viaPath: a null may be exposed as "".
func checkExposed(labels map[string]string, name string, v any) string {
	got, ok := labels[name]
	switch t := v.(type) {
	case string:
		if !ok || got != t {
			return fmt.Sprintf("field %q: label %s=%q (present=%v), expected %q", name, name, got, ok, t)
		}
	case jNum:
		if !ok || !numEqual(got, string(t)) {
			return fmt.Sprintf("field %q: label %s=%q (present=%v), expected number %s", name, name, got, ok, string(t))
		}
	case bool:
		if !ok || got != strconv.FormatBool(t) {
			return fmt.Sprintf("field %q: label %s=%q (present=%v), expected %v", name, name, got, ok, t)
		}
	case nil:
		if ok && got != "" {
			return fmt.Sprintf("field %q is null: label %s=%q, expected absent or empty", name, name, got)
		}
	default:
		if !ok || !jsonEqual(got, v) {
			return fmt.Sprintf("field %q: label %s=%q (present=%v), expected JSON %s", name, name, got, ok, jText(v))
		}
	}
	return ""
}

type jPath struct {
	Text string
	Val  any
	Own  string // the key itself when the path addresses a top-level key that is a valid label name
}

func isIdent(s string) bool { return validLabelName(s) }

// collectPaths lists every addressable value of the document with a path expression for it.
func collectPaths(r *vk.RNG, v any, prefix string, first bool, out *[]jPath) {
	switch t := v.(type) {
	case *jObj:
		for _, k := range t.Keys {
			var seg string
			if isIdent(k) && r.Chance(3, 4) {
				if first {
					seg = k
					if r.Chance(1, 4) {
						seg = "." + k
					}
				} else {
					seg = "." + k
				}
			} else {
				seg = "[" + strconv.Quote(k) + "]"
			}
			p := prefix + seg
			own := ""
			if first && isIdent(k) {
				own = k
			}
			*out = append(*out, jPath{Text: p, Val: t.Vals[k], Own: own})
			collectPaths(r, t.Vals[k], p, false, out)
		}
	case []any:
		if first {
			return
		}
		for i, x := range t {
			p := prefix + "[" + strconv.Itoa(i) + "]"
			*out = append(*out, jPath{Text: p, Val: x})
			collectPaths(r, x, p, false, out)
		}
	}
}

func c06Eval(c *vk.Case, line string, stage string, pre map[string]string) (map[string]string, string, string) {
	labels := map[string]string{"app": "x"}
	for k, v := range pre {
		labels[k] = v
	}
	mq := &MemQuerier{Recs: []Rec{{TS: logT0 + 1e9, Line: line, Labels: labels}}, ErrAfter: -1}
	res, err := evalQuery(mq, `{app="x"} `+stage, logRangeParams(2))
	c.Eval(1)
	if err != nil {
		return nil, "", "query failed: " + err.Error()
	}
	n := 0
	var got map[string]string
	var gotLine string
	for _, s := range res.Streams {
		for _, e := range s.Entries {
			n++
			got = s.Labels
			gotLine = e.Line
		}
	}
	if n != 1 {
		return nil, "", fmt.Sprintf("stage returned %d entries for 1 record (line dropped or duplicated)", n)
	}
	return got, gotLine, ""
}

func runC06(r *vk.Run) {
	r.SetRule("write-then-parse round trip: lines are written by the harness from field maps (JSON via its own ordered writer + encoding/json strings; logfmt with JSON-style quoting; packed entries; delimiter-joined lines) and pushed through one parser stage via Engine.Eval; " +
		"the field map is the expected label set. phases json (bare, field list, path expressions generated from the document), logfmt (bare, list, renames), regexp, pattern, unpack, override (existing label of the same name), " +
		"sequence (each of 3..8 lines alone vs all of them through one stage instance: a stage keeps no memory of earlier, possibly malformed lines), malformed (truncation at EVERY byte of documents, non-object JSON, unterminated logfmt quotes, bad packed entries, non-matching pattern/regexp lines). non-trivial = distinct (line, stage) with >=1 asserted field or a malformed line.")
	r.Assume("numbers are compared numerically, composite JSON values as JSON, null may be absent or empty", "keys whose sanitised names collide (or hit app/msg) are excluded (counted)",
		"for pattern/regexp a non-matching line must only be kept unchanged (no notion of parse failure)", "a missing JSON path may be absent or empty")

	sanOK := func(keys []string) (map[string]string, bool) {
		m := map[string]string{}
		seen := map[string]bool{"app": true, "msg": true, "__error__": true, "__error_details__": true}
		for _, k := range keys {
			_, sk := modelSanitise(k)
			if sk == "" || seen[sk] {
				return nil, false
			}
			seen[sk] = true
			m[k] = sk
		}
		return m, true
	}

	r.Phase("json", r.N(8000, 1000000), func(c *vk.Case) {
		rng := c.Rng
		doc := genJObj(rng, 2, rng.Range(0, 6))
		line := jText(doc)
		if rng.Chance(1, 6) {
			// JSON allows white space around the value
			line = vk.Pick(rng, []string{" ", "\t", "\n", "  \r\n", ""}) + line + vk.Pick(rng, []string{"", " ", "\n", "\r\n"})
			c.Count("json_documents_with_surrounding_space", 1)
		}
		names, ok := sanOK(doc.Keys)
		if !ok {
			c.Count("excluded_collision", 1)
			return
		}
		det := func(stage string, got map[string]string) map[string]any {
			return map[string]any{"line": line, "stage": stage, "labels": got}
		}
		// bare
		got, gotLine, msg := c06Eval(c, line, "| json", nil)
		if msg == "" && gotLine != line {
			msg = fmt.Sprintf("line changed to %q", gotLine)
		}
		if msg == "" {
			if e, bad := got["__error__"]; bad {
				msg = fmt.Sprintf("well-formed JSON flagged __error__=%q (%s)", e, got["__error_details__"])
			}
		}
		if msg == "" {
			for _, k := range doc.Keys {
				if m := checkExposed(got, names[k], doc.Vals[k]); m != "" {
					msg = m
					break
				}
				c.Count("fields_asserted", 1)
			}
		}
		if msg == "" {
			exp := map[string]bool{"app": true, "msg": true}
			for _, k := range doc.Keys {
				exp[names[k]] = true
			}
			for k := range got {
				if !exp[k] {
					msg = fmt.Sprintf("unexpected label %s=%q", k, got[k])
				}
			}
		}
		if msg != "" {
			key := ""
			c.Fail(key, "| json: "+msg, det("| json", got))
			return
		}
		c.Count("documents:json", 1)
		c.Nontrivial("json:" + line)

		// field list (identifier keys only)
		var idKeys []string
		for _, k := range doc.Keys {
			if isIdent(k) && !reservedWords[k] {
				idKeys = append(idKeys, k)
			}
		}
		if len(idKeys) > 0 {
			want := vk.Subset(rng, idKeys)
			if len(want) == 0 {
				want = idKeys[:1]
			}
			if rng.Chance(1, 3) {
				want = append(want, "absentkey")
			}
			// a requested name that no key of the line HAS but that some key of the line sanitises to
			// (x-y -> x_y): the field list asks for the field named x_y, and there is none
			for _, k := range doc.Keys {
				if sk := names[k]; sk != k && isIdent(sk) && !reservedWords[sk] && rng.Chance(1, 2) {
					if _, has := doc.Vals[sk]; !has && !inList(want, sk) {
						want = append(want, sk)
						c.Count("json_list_requests_sanitised_twin", 1)
					}
				}
			}
			stage := "| json " + strings.Join(want, ", ")
			got, gotLine, msg := c06Eval(c, line, stage, nil)
			if msg == "" && gotLine != line {
				msg = "line changed"
			}
			if msg == "" {
				if _, bad := got["__error__"]; bad {
					msg = "well-formed JSON flagged __error__: " + got["__error_details__"]
				}
			}
			if msg == "" {
				exp := map[string]bool{"app": true, "msg": true}
				for _, k := range want {
					exp[k] = true
					if v, has := doc.Vals[k]; has {
						if m := checkExposed(got, k, v); m != "" {
							msg = m
						}
						c.Count("fields_asserted", 1)
					} else if gv, present := got[k]; present && gv != "" {
						msg = fmt.Sprintf("absent key %q exposed as %q", k, gv)
					}
				}
				for k := range got {
					if !exp[k] {
						msg = fmt.Sprintf("non-requested field exposed: %s=%q", k, got[k])
					}
				}
			}
			if msg != "" {
				c.Fail("", stage+": "+msg, det(stage, got))
				return
			}
			c.Count("documents:json-list", 1)
		}

		// path expressions
		var paths []jPath
		collectPaths(rng, doc, "", true, &paths)
		if len(paths) > 0 {
			k := rng.Range(1, 3)
			var parts []string
			type want struct {
				label string
				p     jPath
			}
			var wants []want
			for i := 0; i < k; i++ {
				p := vk.Pick(rng, paths)
				lbl := fmt.Sprintf("x%d", i)
				parts = append(parts, lbl+"="+quoteLogQL(p.Text))
				wants = append(wants, want{lbl, p})
			}
			if rng.Chance(1, 4) {
				parts = append(parts, "missing="+quoteLogQL("no.such[3].path"))
				wants = append(wants, want{"missing", jPath{Text: "no.such[3].path", Val: nil}})
			}
			stage := "| json " + strings.Join(parts, ", ")
			got, gotLine, msg := c06Eval(c, line, stage, nil)
			if msg == "" && gotLine != line {
				msg = "line changed"
			}
			if msg == "" {
				if _, bad := got["__error__"]; bad {
					msg = "well-formed JSON flagged __error__: " + got["__error_details__"]
				}
			}
			if msg == "" {
				exp := map[string]bool{"app": true, "msg": true}
				for _, w := range wants {
					exp[w.label] = true
					if m := checkExposed(got, w.label, w.p.Val); m != "" {
						msg = fmt.Sprintf("path %s: %s", w.p.Text, m)
					}
					c.Count("fields_asserted", 1)
					c.Count("paths_asserted", 1)
				}
				for k := range got {
					if !exp[k] {
						msg = fmt.Sprintf("non-requested field exposed: %s=%q", k, got[k])
					}
				}
			}
			if msg != "" {
				c.Fail("", stage+": "+msg, det(stage, got))
				return
			}
			c.Count("documents:json-paths", 1)
			// the label's name is the user's choice: a path stored under the key's own name exposes the
			// same text as under any other name (no existing label of that name, so nothing to override)
			{
				var parts2 []string
				own := map[string]string{} // own-name label -> the x label of the reference answer
				for _, w := range wants {
					if w.p.Own != "" && w.p.Own != "app" && w.p.Own != "msg" && own[w.p.Own] == "" && !strings.HasPrefix(w.p.Own, "__") {
						own[w.p.Own] = w.label
						parts2 = append(parts2, w.p.Own+"="+quoteLogQL(w.p.Text))
					}
				}
				if len(parts2) > 0 {
					stage2 := "| json " + strings.Join(parts2, ", ")
					got2, gotLine2, msg2 := c06Eval(c, line, stage2, nil)
					if msg2 == "" && gotLine2 != line {
						msg2 = "line changed"
					}
					if msg2 == "" {
						for name, ref := range own {
							a, okA := got[ref]
							b, okB := got2[name]
							if okA != okB || a != b {
								msg2 = fmt.Sprintf("top-level key %q: stored as %s it gives %q (present=%v), stored under its own name %q (present=%v)", name, ref, a, okA, b, okB)
							}
							c.Count("own_name_paths_compared", 1)
						}
						for k := range got2 {
							if _, req := own[k]; !req && k != "app" && k != "msg" {
								msg2 = fmt.Sprintf("non-requested field exposed: %s=%q", k, got2[k])
							}
						}
					}
					if msg2 != "" {
						c.Fail("", stage2+" (compared with "+stage+"): "+msg2, det(stage2, got2))
						return
					}
				}
			}
			// two labels selecting the same value
			{
				pth := vk.Pick(rng, paths)
				stage := "| json d0=" + quoteLogQL(pth.Text) + ", d1=" + quoteLogQL(pth.Text)
				got, _, msg := c06Eval(c, line, stage, nil)
				if msg == "" {
					if m := checkExposed(got, "d0", pth.Val); m != "" {
						msg = "path " + pth.Text + " (first of two labels): " + m
					} else if m := checkExposed(got, "d1", pth.Val); m != "" {
						msg = "path " + pth.Text + " (second of two labels): " + m
					}
				}
				if msg != "" {
					c.Fail("", stage+": "+msg, det(stage, got))
					return
				}
				c.Count("documents:json-same-path-twice", 1)
			}
			// field list and path expressions in one stage
			if len(idKeys) > 0 {
				key := vk.Pick(rng, idKeys)
				pth := vk.Pick(rng, paths)
				if key != "px" {
					stage := "| json " + key + ", px=" + quoteLogQL(pth.Text)
					if rng.Bool() {
						stage = "| json px=" + quoteLogQL(pth.Text) + ", " + key
					}
					got, gotLine, msg := c06Eval(c, line, stage, nil)
					if msg == "" && gotLine != line {
						msg = "line changed"
					}
					if msg == "" {
						if _, bad := got["__error__"]; bad {
							msg = "well-formed JSON flagged __error__: " + got["__error_details__"]
						}
					}
					if msg == "" {
						if m := checkExposed(got, "px", pth.Val); m != "" {
							msg = "path " + pth.Text + ": " + m
						} else if m := checkExposed(got, key, doc.Vals[key]); m != "" {
							msg = m
						}
						for k := range got {
							if k != "app" && k != "msg" && k != "px" && k != key {
								msg = fmt.Sprintf("non-requested field exposed: %s=%q", k, got[k])
							}
						}
					}
					if msg != "" {
						c.Fail("", stage+": "+msg, det(stage, got))
						return
					}
					c.Count("documents:json-mixed", 1)
					c.Count("fields_asserted", 2)
				}
			}
			if c.Idx < 40 && len(paths) > 3 {
				c.Sample("json-paths", map[string]any{"line": line, "stage": stage})
			}
		}
	})

	lfKeys := []string{"a", "b", "level", "status", "dur", "k9", "_u", "user", "msgid", "ts", "__typename", "__v"}
	r.Phase("logfmt", r.N(6000, 600000), func(c *vk.Case) {
		rng := c.Rng
		var pairs [][2]string
		used := map[string]bool{}
		n := rng.Range(0, 6)
		for len(pairs) < n {
			k := vk.Pick(rng, lfKeys)
			if used[k] {
				continue
			}
			used[k] = true
			v := vk.Pick(rng, c06Strings)
			if !utf8.ValidString(v) {
				continue
			}
			if rng.Chance(1, 40) {
				// a long field (a stack trace, a payload): lines of 16 KiB .. 60 KiB are lines
				v = strings.Repeat(vk.Pick(rng, []string{"x", "ab ", "trace/"}), vk.Pick(rng, []int{5500, 17000, 20000}))
				c.Count("logfmt_lines_over_16k", 1)
			}
			pairs = append(pairs, [2]string{k, v})
		}
		line := writeLogfmt(pairs)
		variant := rng.Intn(3)
		stage := "| logfmt"
		expect := map[string]string{}
		// sometimes one key occurs twice in the line: which occurrence wins is not stated, but every
		// OTHER field must still be exposed
		dupKey := ""
		if len(pairs) >= 2 && rng.Chance(1, 4) {
			d := rng.Intn(len(pairs))
			dupKey = pairs[d][0]
			extra := [2]string{dupKey, "second-" + pairs[d][1]}
			pos := rng.Intn(len(pairs) + 1)
			withDup := append(append(append([][2]string{}, pairs[:pos]...), extra), pairs[pos:]...)
			line = writeLogfmt(withDup)
			c.Count("logfmt_lines_with_duplicate_key", 1)
		}
		if dupKey == "" && len(pairs) >= 1 && rng.Chance(1, 5) {
			// a line may hold a line break (multi-line records, a trailing terminator in front): the fields
			// after it are fields of the line all the same
			var parts []string
			for i := range pairs {
				parts = append(parts, writeLogfmt(pairs[i:i+1]))
			}
			at := rng.Intn(len(parts))
			line = ""
			for i, p := range parts {
				if i == at {
					line += vk.Pick(rng, []string{"\n", " \n", "\n\n", "\r\n"})
				} else if i > 0 {
					line += " "
				}
				line += p
			}
			c.Count("logfmt_lines_with_line_break", 1)
		}
		dupLabel := map[string]bool{}
		switch variant {
		case 0:
			for _, kv := range pairs {
				expect[kv[0]] = kv[1]
				dupLabel[kv[0]] = kv[0] == dupKey
			}
		case 1:
			var want []string
			for _, kv := range pairs {
				if rng.Bool() {
					want = append(want, kv[0])
					expect[kv[0]] = kv[1]
					dupLabel[kv[0]] = kv[0] == dupKey
				}
			}
			if len(want) == 0 {
				want = []string{"absentkey"}
			}
			stage = "| logfmt " + strings.Join(want, ", ")
		case 2:
			var parts []string
			for i, kv := range pairs {
				if rng.Bool() {
					dst := fmt.Sprintf("r%d", i)
					if _, taken := expect[kv[0]]; !taken && isIdent(kv[0]) && kv[0] != "app" && kv[0] != "msg" && !strings.HasPrefix(kv[0], "__") && kv[0] != dupKey && rng.Chance(1, 4) {
						dst = kv[0] // stored under the key's own name: the same answer as under any other
						c.Count("logfmt_own_name_renames", 1)
					}
					parts = append(parts, dst+"="+quoteLogQL(kv[0]))
					expect[dst] = kv[1]
					dupLabel[dst] = kv[0] == dupKey
				}
			}
			if len(parts) == 0 {
				parts = []string{`r0="absentkey"`}
			}
			stage = "| logfmt " + strings.Join(parts, ", ")
		}
		got, gotLine, msg := c06Eval(c, line, stage, nil)
		if msg == "" && gotLine != line {
			msg = "line changed"
		}
		if msg == "" {
			if _, bad := got["__error__"]; bad {
				msg = "well-formed logfmt flagged __error__: " + got["__error_details__"]
			}
		}
		if msg == "" {
			for k, v := range expect {
				gv, ok := got[k]
				if dupLabel[k] && ok && (gv == v || gv == "second-"+v) {
					continue // duplicated key: either occurrence
				}
				if !ok || gv != v {
					msg = fmt.Sprintf("field %s=%q (present=%v), expected %q", k, gv, ok, v)
				}
				c.Count("fields_asserted", 1)
			}
			for k := range got {
				if _, ok := expect[k]; !ok && k != "app" && k != "msg" {
					msg = fmt.Sprintf("non-requested/unknown field exposed: %s=%q", k, got[k])
				}
			}
		}
		if msg != "" {
			c.Fail("", stage+": "+msg, map[string]any{"line": line, "pairs": pairs, "stage": stage, "labels": got, "duplicated_key": dupKey})
			return
		}
		c.Count("documents:logfmt", 1)
		if len(expect) > 0 {
			c.Nontrivial("logfmt:" + line + stage)
		}
		if c.Idx < 3 {
			c.Sample("logfmt", map[string]any{"line": line, "stage": stage})
		}
	})

	delims := []string{" ", " - ", "|", "] [", "\"", ", ", "::", "\t"}
	fieldVals := []string{"alice", "10.0.0.5", "GET", "/api/v1", "200", "x", "ünï", "a.b", "k=v", "(p)", "", "r42"}
	r.Phase("pattern", r.N(6000, 600000), func(c *vk.Case) {
		rng := c.Rng
		n := rng.Range(1, 4)
		var pat, line strings.Builder
		expect := map[string]string{}
		var usedDelims []string
		if rng.Bool() {
			lit := vk.Pick(rng, []string{"[", "ts=", "> "})
			pat.WriteString(lit)
			line.WriteString(lit)
		}
		for i := 0; i < n; i++ {
			if i > 0 {
				d := vk.Pick(rng, delims)
				usedDelims = append(usedDelims, d)
				pat.WriteString(d)
				line.WriteString(d)
			}
			name := fmt.Sprintf("f%d", i)
			if rng.Chance(1, 5) {
				name = "_"
			}
			v := vk.Pick(rng, fieldVals)
			if i == n-1 && rng.Bool() {
				v = v + " trailing words" // the last capture takes the rest of the line
			}
			pat.WriteString("<" + name + ">")
			line.WriteString(v)
			if name != "_" {
				expect[name] = v
			}
		}
		// a pattern may end in a literal, and it is not anchored at the end of the line: the last capture then
		// extends to the FIRST occurrence of that literal, whatever follows (also the literal again)
		closing := ""
		if rng.Chance(1, 3) {
			closing = vk.Pick(rng, []string{"]", "\"", ":", " end", ")", ";", "] "})
			last := fmt.Sprintf("f%d", n-1)
			if v, has := expect[last]; has && strings.Contains(v, closing) {
				c.Count("excluded_ambiguous_pattern", 1)
				return
			}
			pat.WriteString(closing)
			line.WriteString(closing)
			if rng.Chance(2, 3) {
				line.WriteString(vk.Pick(rng, []string{" tail", " more" + closing + " again", closing, closing + closing, " x" + closing, " \"GET /items[1] HTTP/1.1\" 200: ok (cached); end"}))
				c.Count("pattern_lines_continuing_after_closing_literal", 1)
			}
		}
		ok := true
		for i := 0; i < n-1; i++ {
			name := fmt.Sprintf("f%d", i)
			v, has := expect[name]
			if !has {
				continue
			}
			if strings.Contains(v, usedDelims[i]) {
				ok = false
			}
		}
		// also `_` captures: their values must not contain the following delimiter (else later fields shift)
		if !ok || strings.Contains(line.String(), "<") {
			c.Count("excluded_ambiguous_pattern", 1)
			return
		}
		// check ambiguity generally with an independent matcher: split greedily at first occurrence
		if !patternUnambiguous(pat.String(), line.String(), expect) {
			c.Count("excluded_ambiguous_pattern", 1)
			return
		}
		stage := "| pattern " + quoteLogQL(pat.String())
		got, gotLine, msg := c06Eval(c, line.String(), stage, nil)
		if msg == "" && gotLine != line.String() {
			msg = "line changed"
		}
		if msg == "" {
			if _, bad := got["__error__"]; bad {
				msg = "matching line flagged __error__"
			}
			for k, v := range expect {
				if gv, ok := got[k]; !ok || gv != v {
					msg = fmt.Sprintf("capture %s=%q (present=%v), expected %q", k, gv, ok, v)
				}
				c.Count("fields_asserted", 1)
			}
			for k := range got {
				if _, ok := expect[k]; !ok && k != "app" && k != "msg" {
					msg = fmt.Sprintf("unexpected label %s=%q", k, got[k])
				}
			}
		}
		if msg != "" {
			c.Fail("", stage+": "+msg, map[string]any{"line": line.String(), "stage": stage, "labels": got, "expect": expect})
			return
		}
		c.Count("documents:pattern", 1)
		c.Nontrivial("pattern:" + line.String() + stage)
		if c.Idx < 3 {
			c.Sample("pattern", map[string]any{"line": line.String(), "stage": stage})
		}
	})

	r.Phase("regexp", r.N(1500, 300000), func(c *vk.Case) {
		rng := c.Rng
		n := rng.Range(1, 4)
		d := vk.Pick(rng, []string{" ", "|", ";", " - "})
		var reParts, vals []string
		expect := map[string]string{}
		for i := 0; i < n; i++ {
			v := vk.Pick(rng, []string{"alice", "10.0.0.5", "GET", "/api/v1", "200", "x", "ünï", "a.b", "k=v", "(p)", "r42"})
			vals = append(vals, v)
			name := fmt.Sprintf("g%d", i)
			cls := `[^` + regexp.QuoteMeta(d[:1]) + `]+`
			if rng.Chance(1, 4) {
				reParts = append(reParts, "(?:"+cls+")") // non-capturing
			} else if rng.Chance(1, 5) {
				reParts = append(reParts, "("+cls+")") // unnamed group: not exposed
			} else {
				reParts = append(reParts, "(?P<"+name+">"+cls+")")
				expect[name] = v
			}
		}
		if len(expect) == 0 {
			// the grammar requires at least one named capture? (not asserted) -> skip
			c.Count("excluded_no_named_capture", 1)
			return
		}
		src := "^" + strings.Join(reParts, regexp.QuoteMeta(d)) + "$"
		line := strings.Join(vals, d)
		// named groups that take no part in the match (an optional group, the other branch of an
		// alternation): the line matches all the same; whether such a group is exposed as "" or not at
		// all is left open, every participating group must still be exposed
		idle := map[string]bool{}
		switch rng.Intn(4) {
		case 0:
			src = "^(?P<opt>ZZZ)?" + src[1:]
			idle["opt"] = true
		case 1:
			src = src[:len(src)-1] + "(?: (?P<tail>ZZZ))?$"
			idle["tail"] = true
		case 2:
			src = "(?:" + src + ")|(?P<other>^ZZZ$)"
			idle["other"] = true
		}
		if len(idle) > 0 {
			c.Count("regexp_idle_named_groups", 1)
		}
		// a group that takes part in the match and captures the empty string: the field is there and
		// it is empty, so a label of that name can no longer hold an older value
		var pre map[string]string
		if len(idle) == 0 && strings.HasPrefix(src, "^") && rng.Bool() {
			src = "^(?P<emp>Q*)" + src[1:]
			pre = map[string]string{"emp": "stale"}
			c.Count("regexp_empty_captures", 1)
		}
		stage := "| regexp " + quoteLogQL(src)
		got, gotLine, msg := c06Eval(c, line, stage, pre)
		if pre != nil {
			if v := got["emp"]; msg == "" && v != "" {
				msg = fmt.Sprintf("group emp captured the empty string but label emp reads %q", v)
			}
			delete(got, "emp")
		}
		if msg == "" && gotLine != line {
			msg = "line changed"
		}
		for k := range idle {
			if v, ok := got[k]; ok && v != "" {
				msg = fmt.Sprintf("group %s took no part in the match but is exposed as %q", k, v)
			}
			delete(got, k)
		}
		if msg == "" {
			if _, bad := got["__error__"]; bad {
				msg = "matching line flagged __error__"
			}
			for k, v := range expect {
				if gv, ok := got[k]; !ok || gv != v {
					msg = fmt.Sprintf("capture %s=%q (present=%v), expected %q", k, gv, ok, v)
				}
				c.Count("fields_asserted", 1)
			}
			for k := range got {
				if _, ok := expect[k]; !ok && k != "app" && k != "msg" {
					msg = fmt.Sprintf("unexpected label %s=%q", k, got[k])
				}
			}
		}
		if msg != "" {
			c.Fail("", stage+": "+msg, map[string]any{"line": line, "stage": stage, "labels": got, "expect": expect})
			return
		}
		c.Count("documents:regexp", 1)
		c.Nontrivial("regexp:" + line + stage)
	})

	// A parser stage has no memory: what it exposes for a line cannot depend on the lines that went
	// through the same stage before it. Every line is evaluated alone and then all of them in one
	// query (malformed, truncated-inside-a-nested-value and well-formed lines interleaved).
	seqStages := []string{
		`| json code="http.code", m="http.method", msg2="msg", first="items[0]", k="items[1].k", deep="a.b.c"`, `| json method="req.method", path="req.path", top="method"`,
		`| json http="http", method="method", c="a.b.c"`, `| json`, `| json msg, http, method`, `| logfmt`, `| logfmt a, b, c="msg"`, `| unpack`,
		`| regexp "(?P<w>\\w+)=(?P<v>\\w+)"`, `| pattern "<p> <q>"`, `| json x="a.b", y="a.b.c" | logfmt`,
	}
	seqKeys := []string{`"msg":"hello"`, `"http":{"code":200,"method":"GET"}`, `"req":{"method":"POST","path":"/x"}`, `"items":[1,{"k":"v"},[2,3]]`, `"a":{"b":{"c":"deep"}}`, `"method":"TOP"`, `"_entry":"packed line"`, `"n":1.5e3`, `"s":"q\"uote"`}
	r.Phase("sequence", r.N(1500, 300000), func(c *vk.Case) {
		rng := c.Rng
		stage := vk.Pick(rng, seqStages)
		n := rng.Range(3, 8)
		var lines []string
		broken := 0
		for i := 0; i < n; i++ {
			var line string
			switch rng.Intn(6) {
			case 0:
				line = vk.Pick(rng, []string{"plain text", "a=1 b=2 msg=hello", `a="unterminated b=2`, "", "[1,2]", `{"k":oops}`, `{"http":{"code":20`, `{"a":{"b":{"c":"de`, "GET /x", `x=1 =2`})
			default:
				perm := rng.Perm(len(seqKeys))
				k := rng.Range(1, len(seqKeys))
				parts := make([]string, k)
				for j := 0; j < k; j++ {
					parts[j] = seqKeys[perm[j]]
				}
				line = "{" + strings.Join(parts, ",") + "}"
				if rng.Chance(1, 3) && len(line) > 2 {
					line = line[:rng.Range(1, len(line)-1)] // cut anywhere, often inside a nested value
					broken++
				}
			}
			lines = append(lines, line)
			if rng.Chance(1, 4) && len(lines) < n {
				// the same line again, directly after itself (a retry loop, two replicas): it is parsed and
				// flagged like its first occurrence
				lines = append(lines, line)
				i++
				c.Count("sequence_adjacent_repeats", 1)
			}
		}
		n = len(lines)
		type one struct {
			labels map[string]string
			line   string
		}
		alone := make([]one, n)
		for i, l := range lines {
			got, gotLine, msg := c06Eval(c, l, stage, nil)
			if msg != "" {
				c.Fail("", fmt.Sprintf("%s on a single line: %s", stage, msg), map[string]any{"line": l, "stage": stage})
				return
			}
			alone[i] = one{without(got, "__error_details__"), gotLine}
		}
		var recs []Rec
		for i, l := range lines {
			recs = append(recs, Rec{TS: logT0 + int64(i+1)*1e9, Line: l, Labels: map[string]string{"app": "x"}})
		}
		res, err := evalQuery(&MemQuerier{Recs: recs, ErrAfter: -1}, `{app="x"} `+stage, logRangeParams(n+1))
		c.Eval(1)
		det := map[string]any{"lines": lines, "stage": stage}
		if err != nil {
			c.Fail("", fmt.Sprintf("%s over %d lines failed: %v", stage, n, err), det)
			return
		}
		seen := map[int64]bool{}
		for _, st := range res.Streams {
			for _, e := range st.Entries {
				i := int((e.TS-logT0)/1e9) - 1
				if i < 0 || i >= n || seen[e.TS] {
					c.Fail("", fmt.Sprintf("%s: unexpected or repeated entry ts=%d", stage, e.TS), det)
					return
				}
				seen[e.TS] = true
				got := without(st.Labels, "__error_details__")
				if e.Line != alone[i].line || !mapsEqual(got, alone[i].labels) {
					det["line_index"], det["alone"], det["in_sequence"] = i, alone[i].labels, got
					c.Fail("", fmt.Sprintf("%s: line #%d %q gives labels %v when evaluated alone but %v after the preceding lines", stage, i, lines[i], alone[i].labels, got), det)
					return
				}
			}
		}
		if len(seen) != n {
			c.Fail("", fmt.Sprintf("%s: %d of %d lines returned", stage, len(seen), n), det)
			return
		}
		c.Count("sequences_compared", 1)
		c.Count("lines_in_sequences", n)
		if broken > 0 {
			c.Count("sequences_with_broken_lines", 1)
			c.Nontrivial("sequence:" + stage + strings.Join(lines, "\n"))
		}
	})
	r.Require("sequences_with_broken_lines", 500)

	r.Phase("unpack", r.N(1500, 300000), func(c *vk.Case) {
		rng := c.Rng
		entry := vk.Pick(rng, c06Strings)
		o := &jObj{Vals: map[string]any{}}
		expect := map[string]string{}
		n := rng.Range(0, 4)
		for len(o.Keys) < n {
			k := vk.Pick(rng, []string{"pod", "level", "k9", "_u", "env", "a.b", "zone"})
			if _, dup := o.Vals[k]; dup {
				continue
			}
			if rng.Chance(1, 6) {
				// a field that is ignored anyway (not a string) may have any name
				k = vk.Pick(rng, []string{"status code", "9lives", "a-b", "", "x/y", "ünï"})
				if _, dup := o.Vals[k]; dup {
					continue
				}
				o.Keys = append(o.Keys, k)
				o.Vals[k] = vk.Pick(rng, []any{jNum("200"), true, nil, jNum("1.5")})
				c.Count("ignored_fields_with_odd_names", 1)
				continue
			}
			o.Keys = append(o.Keys, k)
			if rng.Chance(1, 5) {
				o.Vals[k] = jNum("7") // non-string: ignored
			} else {
				v := vk.Pick(rng, c06Strings)
				o.Vals[k] = v
				expect[k] = v
			}
		}
		hasEntry := rng.Chance(5, 6)
		if hasEntry {
			pos := rng.Intn(len(o.Keys) + 1)
			o.Keys = append(o.Keys[:pos], append([]string{"_entry"}, o.Keys[pos:]...)...)
			o.Vals["_entry"] = entry
		}
		line := jText(o)
		got, gotLine, msg := c06Eval(c, line, "| unpack", nil)
		wantLine := line
		if hasEntry {
			wantLine = entry
		}
		if msg == "" && gotLine != wantLine {
			msg = fmt.Sprintf("line %q, expected %q", gotLine, wantLine)
		}
		if msg == "" {
			if _, bad := got["__error__"]; bad {
				msg = "well-formed packed entry flagged __error__: " + got["__error_details__"]
			}
			for k, v := range expect {
				if gv, ok := got[k]; !ok || gv != v {
					msg = fmt.Sprintf("packed label %s=%q (present=%v), expected %q", k, gv, ok, v)
				}
				c.Count("fields_asserted", 1)
			}
			for k := range got {
				if _, ok := expect[k]; !ok && k != "app" && k != "msg" {
					msg = fmt.Sprintf("unexpected label %s=%q", k, got[k])
				}
			}
		}
		if msg != "" {
			c.Fail("", "| unpack: "+msg, map[string]any{"line": line, "labels": got, "expect": expect})
			return
		}
		c.Count("documents:unpack", 1)
		c.Nontrivial("unpack:" + line)
	})

	// an existing label of the same name is overridden
	r.Phase("override", r.N(400, 100000), func(c *vk.Case) {
		rng := c.Rng
		v := vk.Pick(rng, c06Strings)
		if !utf8.ValidString(v) {
			return
		}
		type tc struct{ line, stage string }
		jl, _ := json.Marshal(map[string]string{"level": v})
		jp, _ := json.Marshal(map[string]string{"_entry": "e", "level": v})
		cases := []tc{
			{string(jl), "| json"}, {string(jl), "| json level"}, {string(jl), `| json level="level"`},
			{"level=" + logfmtQuote(v), "| logfmt"}, {"level=" + logfmtQuote(v), "| logfmt level"},
			{string(jp), "| unpack"},
		}
		if v != "" && !strings.ContainsAny(v, " \n") {
			cases = append(cases, tc{"lvl " + v, `| regexp "^lvl (?P<level>.+)$"`}, tc{"lvl " + v, `| pattern "lvl <level>"`})
		}
		for _, t := range cases {
			got, _, msg := c06Eval(c, t.line, t.stage, map[string]string{"level": "old-value"})
			if msg == "" && got["level"] != v {
				msg = fmt.Sprintf("existing label level not overridden: %q, expected %q", got["level"], v)
			}
			if msg != "" {
				c.Fail("", t.stage+": "+msg, map[string]any{"line": t.line, "stage": t.stage, "labels": got})
				return
			}
			c.Count("overrides_asserted", 1)
			c.Nontrivial("override:" + t.line + t.stage)
		}
	})

	// every escape JSON allows inside a string, also the ones Go's own syntax does not know (\/ and surrogate
	// pairs), in every form of the json stage: the field's value is the string the escapes denote
	r.Phase("escapes", r.N(40, 2000), func(c *vk.Case) {
		rng := c.Rng
		type fld struct{ raw, val string }
		pool := []fld{{`"http:\/\/x\/y"`, "http://x/y"}, {`"\ud83d\ude00 ok"`, "\U0001F600 ok"}, {`"a\u00e9\u4e16"`, "a\u00e9\u4e16"}, {`"tab\there \"q\" back\\slash"`, "tab\there \"q\" back\\slash"},
			{`"\b\f\n\r"`, "\b\f\n\r"}, {`"\u0041\u005c"`, "A\\"}, {`"plain"`, "plain"}, {`"\ud834\udd1e clef"`, "\U0001D11E clef"}, {`"sl\/ash \u002f"`, "sl/ash /"}}
		a, b, x := vk.Pick(rng, pool), vk.Pick(rng, pool), vk.Pick(rng, pool)
		line := `{"url":` + a.raw + `,"nested":{"text":` + b.raw + `},"other":` + x.raw + `,"status":200}`
		for _, st := range []struct {
			stage string
			want  map[string]string
		}{
			{`| json`, map[string]string{"url": a.val, "other": x.val, "status": "200"}}, // (how a nested object is exposed by the bare form is not stated)
			{`| json url, other`, map[string]string{"url": a.val, "other": x.val}},
			{`| json u="url", t="nested.text", s="status"`, map[string]string{"u": a.val, "t": b.val, "s": "200"}},
			{`| json url, t="nested.text"`, map[string]string{"url": a.val, "t": b.val}},
			{`| json s="status"`, map[string]string{"s": "200"}}, // the walk passes every string of the line, asked for or not
		} {
			got, gotLine, msg := c06Eval(c, line, st.stage, nil)
			if msg == "" && gotLine != line {
				msg = "line changed"
			}
			if msg == "" {
				if _, bad := got["__error__"]; bad {
					msg = "well-formed JSON flagged __error__: " + got["__error_details__"]
				}
			}
			if msg == "" {
				for k, v := range st.want {
					if got[k] != v {
						msg = fmt.Sprintf("field %s=%q, expected %q", k, got[k], v)
					}
					c.Count("escaped_fields_asserted", 1)
				}
			}
			if msg != "" {
				c.Fail("", st.stage+" on "+line+": "+msg, map[string]any{"line": line, "stage": st.stage, "labels": got})
				return
			}
		}
		c.Nontrivial("escapes:" + line)
	})
	r.Require("escaped_fields_asserted", 300)

	// malformed lines: kept, unchanged, flagged (json/logfmt/unpack); non-matching: kept unchanged
	r.Phase("malformed", r.N(150, 40000), func(c *vk.Case) {
		rng := c.Rng
		doc := genJObj(rng, 2, rng.Range(1, 5))
		full := jText(doc)
		check := func(line, stage string, wantFlag bool) bool {
			got, gotLine, msg := c06Eval(c, line, stage, nil)
			if msg == "" && gotLine != line {
				msg = fmt.Sprintf("malformed line altered to %q", gotLine)
			}
			if msg == "" && wantFlag {
				if _, ok := got["__error__"]; !ok {
					msg = "malformed line not flagged with __error__"
				}
			}
			if msg == "" && got["app"] != "x" {
				msg = "pre-existing label lost"
			}
			if msg != "" {
				c.Fail("", fmt.Sprintf("%s on %q: %s", stage, line, msg), map[string]any{"line": line, "stage": stage, "labels": got})
				return false
			}
			c.Count("malformed_lines_checked", 1)
			c.Nontrivial("mal:" + stage + line)
			return true
		}
		for cut := 0; cut < len(full); cut++ {
			if !check(full[:cut], "| json", true) {
				return
			}
			c.Count("cut_points", 1)
		}
		packed := jText(&jObj{Keys: []string{"_entry", "pod"}, Vals: map[string]any{"_entry": vk.Pick(rng, c06Strings), "pod": "p1"}})
		for cut := 0; cut < len(packed); cut++ {
			if !check(packed[:cut], "| unpack", true) {
				return
			}
			c.Count("cut_points", 1)
		}
		for _, l := range []string{"[1,2,3]", "42", `"just a string"`, "null", "tru", "{]", `{"a":}`, `{"a" 1}`, `{"a":1,}`, "plain text"} {
			if !check(l, "| json", true) {
				return
			}
			if !check(l, "| json a", true) {
				return
			}
		}
		// the path-expression forms read the document too: text that is not JSON at all is flagged all the same
		// (a JSON value that is not an object is addressable by a path and therefore not asserted here)
		for _, l := range []string{"tru", "{]", `{"a":}`, `{"a" 1}`, `{"a":1,}`, "plain text", `{"a":{"b":`, `{"b":{"c":1},"a":`} {
			if !check(l, `| json x="a"`, true) {
				return
			}
			if !check(l, `| json a, y="b.c"`, true) {
				return
			}
		}
		for cut := 1; cut < len(full); cut++ {
			// a path that is not in the document makes the stage read all of it
			if !check(full[:cut], `| json zz="no.such[0].path"`, true) {
				return
			}
			c.Count("cut_points_path_form", 1)
		}
		for _, l := range []string{`a="unterminated`, `a=1 b="x`, `"k"=v`, `a=1 =v`} {
			if !check(l, "| logfmt", true) {
				return
			}
		}
		// the field-list forms must notice a malformed tail as well
		for _, l := range []string{`a=1 b=2 c="unterminated`, `a=1 b=2 "k"=v`, `b=2 a=1 zz="x`} {
			if !check(l, "| logfmt a, b", true) {
				return
			}
			if !check(l, `| logfmt x="a", y="b"`, true) {
				return
			}
		}
		for _, l := range []string{`{"_entry":"e","bad name":"v"}`, `{"_entry":"e","9x":"v"}`, `[1]`, `plain`, `{"_entry":"e"`} {
			if !check(l, "| unpack", true) {
				return
			}
		}
		for _, l := range []string{"", "no match here", "lvl", "x - y"} {
			if !check(l, `| regexp "^(?P<a>\\d+) (?P<b>\\d+)$"`, false) {
				return
			}
			if !check(l, `| pattern "<a> = <b>;"`, false) {
				return
			}
		}
		if c.Idx == 0 {
			c.Sample("malformed", map[string]any{"document": full, "cuts": len(full)})
		}
	})
	r.Require("fields_asserted", 5000)
	r.Require("paths_asserted", 500)
	r.Require("own_name_paths_compared", 50)
	r.Require("malformed_lines_checked", 3000)
	r.Require("overrides_asserted", 500)
}

// patternUnambiguous re-derives the captures with an independent left-to-right splitter
// ("a capture extends to the first occurrence of the following literal; the last one takes the rest")
// and accepts the case only if that yields exactly the written fields.
func patternUnambiguous(pat, line string, expect map[string]string) bool {
	re := regexp.MustCompile(`<([_a-zA-Z][_a-zA-Z0-9]*)>`)
	idx := re.FindAllStringSubmatchIndex(pat, -1)
	pos := 0
	rest := line
	got := map[string]string{}
	for i, m := range idx {
		lit := pat[pos:m[0]]
		if !strings.HasPrefix(rest, lit) {
			return false
		}
		rest = rest[len(lit):]
		name := pat[m[2]:m[3]]
		pos = m[1]
		var next string
		if i+1 < len(idx) {
			next = pat[m[1]:idx[i+1][0]]
		} else {
			next = pat[m[1]:]
		}
		var v string
		if next == "" {
			v = rest
			rest = ""
		} else {
			j := strings.Index(rest, next)
			if j < 0 {
				return false
			}
			v = rest[:j]
			rest = rest[j:]
		}
		if name != "_" {
			got[name] = v
		}
	}
	return reflect.DeepEqual(got, expect)
}

//go:build verif

package props

import (
	"context"
	"fmt"
	"os"
	"os/exec"
	"strings"
	"time"

	"github.com/tdakkota/docker-logql/internal/lokiapi"
	"github.com/tdakkota/docker-logql/internal/zzverif/vk"
)

func init() {
	register("C18", "exploration", 10*time.Minute, 60*time.Minute, runC18)
}

var c18Queries = []struct {
	name, q string
	log     bool
}{
	{"log", `{container=~"c.*"}`, true},
	{"log-pipeline", `{container=~"c.*"} | logfmt | v != "3"`, true},
	{"log-collide", `{a_b=~".+"}`, true},
	{"log-grouped", `{container=~"c.*"} | drop msg`, true},
	// streams that lost the label the renderer names them by: whatever it prints instead, it prints every time
	{"log-unnamed", `{container=~"c.*"} | drop container`, true},
	{"log-renamed", `{container=~"c.*"} | label_format ctr=container | drop msg`, true},
	{"log-kept", `{container=~"c.*"} | keep a_b, tier, container_id`, true},
	{"range", `count_over_time({container=~"c.*"}[3s])`, false},
	{"range-unwrap", `sum_over_time({container=~"c.*"} | logfmt | unwrap v [4s])`, false},
	{"grouped", `sum by (container) (count_over_time({container=~"c.*"}[3s]))`, false},
	{"grouped-all", `sum(count_over_time({container=~"c.*"}[3s]))`, false},
	{"grouped-collide", `sum by (a_b) (count_over_time({container=~"c.*"}[3s]))`, false},
	{"grouped-empty", `sum by (tier) (count_over_time({container=~"c.*"}[3s]))`, false},
	{"grouped-empty-max", `max by (tier, a_b) (count_over_time({container=~"c.*"}[6s]))`, false},
	{"topk", `topk(2, sum by (container) (count_over_time({container=~"c.*"}[6s])))`, false},
	{"binary", `count_over_time({container=~"c.*"}[3s]) + count_over_time({container=~"c.*"}[5s])`, false},
	{"binary-lit", `sum by (container) (count_over_time({container=~"c.*"}[3s])) / 2`, false},
	{"binary-set", `count_over_time({container=~"c.*"} |= "#1" [3s]) or count_over_time({container=~"c.*"}[3s])`, false},
}

func evalRaw(fd *FakeDocker, query string, p EvalP) (lokiapi.QueryResponseData, error) {
	return newEngine(dockerQuerier(fd)).Eval(context.Background(), query, p.params())
}

// queries whose answer involves ties (equal counts) or an order among series, evaluated by child processes
var c18ChildQueries = []string{
	`topk(1, count_over_time({container=~".+"}[1h]))`,
	`bottomk(2, count_over_time({container=~".+"} | drop msg [1h]))`,
	`sort(count_over_time({container=~".+"} | drop msg [1h]))`,
	`topk by (job) (2, sum by (container, job) (count_over_time({container=~".+"}[1h])))`,
	`avg(rate({container=~".+"}[7s]))`,
}

func c18Child() {
	inv := make([]CSpec, 6)
	for i := range inv {
		inv[i] = CSpec{ID: fmt.Sprintf("id%d", i), Name: fmt.Sprintf("/svc-%c", 'a'+i), Image: "img", State: "running", Labels: map[string]string{"job": "j"}}
		for j := 0; j < 3; j++ {
			inv[i].Frames = append(inv[i].Frames, Frame{Type: 1, TS: c14T0 + int64(j)*1e9 + int64(i)*1000, Body: fmt.Sprintf("line %d", j)})
		}
	}
	for _, q := range c18ChildQueries {
		data, err := evalRaw(newFakeDocker(inv), q, EvalP{Start: c14T0 + 5e9, End: c14T0 + 5e9, Limit: -1})
		if err != nil {
			fmt.Printf("C18CHILD error %v\n", err)
			continue
		}
		res, _ := convertResult(data)
		fmt.Printf("C18CHILD %q\n", res.Canonical())
	}
}

func runC18(r *vk.Run) {
	if os.Getenv("VERIF_C18_CHILD") != "" {
		c18Child()
		os.Exit(0)
	}
	r.SetRule("inventories of 1..5 containers (distinct timestamps; one container carries Docker label keys a.b / a-b / a/b that sanitise to the same name with different values) x 15 queries (log, pipeline, range, unwrap, grouped, top-k, arithmetic/literal/set binary) " +
		"x ALL completion orders of the concurrent per-container requests (gated fake client) x repetitions (map-iteration orders): the canonicalised Eval result and, for log queries, the rendered bytes (colour off) must be identical over all runs of one (inventory, query); " +
		"plus ungated 64-container stress; everything under the Go race detector, any report is a violation. non-trivial = distinct (inventory, query, order) runs with >=2 containers and a non-empty result.")
	r.Assume("canonical form sorts streams/series by label set and entries by (timestamp, line); rendered output compared only with colour off and distinct timestamps, as the statement says")
	r.SetExhaustive(true)
	if !raceEnabled {
		r.Inconclusive("binary not built with -race")
	}
	if Cmd == nil {
		r.Inconclusive("C18 needs the cmd/docker-logql test binary (renderResult)")
		return
	}
	reps := r.N(2, 8)

	// every run of the tool is a new process: nothing in an answer may depend on per-process randomness (hash
	// seeds, addresses), also where values tie. The same evaluations are made in several fresh processes of
	// this very binary and their canonical results compared
	r.Phase("processes", 1, func(c *vk.Case) {
		first := ""
		for run := 0; run < c.R.N(5, 12); run++ {
			cmd := exec.Command(os.Args[0], "-test.run", "^TestVerifHarness$", "-test.timeout", "0")
			cmd.Env = append(os.Environ(), "VERIF_C18_CHILD=1", "VERIF_PROP=C18", "GORACE=halt_on_error=0")
			out, err := cmd.Output()
			c.Eval(1)
			var lines []string
			for _, l := range strings.Split(string(out), "\n") {
				if strings.HasPrefix(l, "C18CHILD ") {
					lines = append(lines, l)
				}
			}
			if err != nil || len(lines) != len(c18ChildQueries) {
				c.R.Inconclusive(fmt.Sprintf("child process of the harness gave %d of %d answers (err=%v)", len(lines), len(c18ChildQueries), err))
				return
			}
			got := strings.Join(lines, "\n")
			if first == "" {
				first = got
			} else if got != first {
				a, b := strings.Split(first, "\n"), lines
				for i := range a {
					if a[i] != b[i] {
						c.Fail("", fmt.Sprintf("query %s over the same logs answers differently in another process of the same program", c18ChildQueries[i]), map[string]any{"query": c18ChildQueries[i], "first_process": trunc(a[i], 2000), "this_process": trunc(b[i], 2000), "process": run})
						return
					}
				}
			}
			c.Count("process_runs_compared", 1)
		}
		c.Nontrivial("processes")
	})
	r.Require("process_runs_compared", 5)

	r.Phase("orders", r.N(3, 40), func(c *vk.Case) {
		for n := 1; n <= 5; n++ {
			inv := c14Inventory(c.Rng, n, 4)
			collide := c.Rng.Intn(n)
			inv[collide].Labels = map[string]string{"a.b": "dot", "a-b": "dash", "a/b": "slash", "plain": "p"}
			for i := range inv {
				if i != collide {
					// every container carries the label so that each selection covers all n containers
					// (the gate needs all n requests of a round to arrive)
					inv[i].Labels = map[string]string{"a.b": "only"}
				}
				// label present-but-empty on some containers, absent on others, set on the rest
				switch i % 3 {
				case 0:
					inv[i].Labels["tier"] = ""
				case 1:
					inv[i].Labels["tier"] = "front"
				}
			}
			perms := permutations(n)
			for _, q := range c18Queries {
				p := EvalP{Start: c14T0, End: c14T0 + 10e9, Step: 2 * time.Second, Limit: -1}
				first, firstRender := "", ""
				for pi, perm := range perms {
					for rep := 0; rep < reps; rep++ {
						fd := newFakeDocker(inv)
						var g *orderGate
						if n >= 2 {
							ids := make([]string, n)
							for i, o := range perm {
								ids[i] = inv[o].ID
							}
							g = newOrderGate(ids)
							g.attach(fd)
						}
						data, err := evalRaw(fd, q.q, p)
						c.Eval(1)
						det := func() map[string]any {
							d := map[string]any{"inventory": inv, "query": q.q, "order": perm, "repetition": rep}
							if g != nil {
								d["observed_order"] = g.observed()
							}
							return d
						}
						if err != nil {
							c.Fail("", fmt.Sprintf("query %s failed: %v", q.q, err), det())
							return
						}
						res, err := convertResult(data)
						if err != nil {
							c.Fail("", "unreadable result: "+err.Error(), det())
							return
						}
						canon := res.Canonical()
						if first == "" {
							first = canon + "\x00"
						} else if first != canon+"\x00" {
							d := det()
							d["this_run"] = canon
							d["first_run"] = first
							key := ""
							c.Fail(key, fmt.Sprintf("query %s over the same logs gave different results in two runs (order %v, repetition %d)", q.q, perm, rep), d)
							return
						}
						if q.log {
							out, err := Cmd.Render(true, true, false, data)
							if err != nil {
								c.Fail("", "render failed: "+err.Error(), det())
								return
							}
							if firstRender == "" {
								firstRender = string(out) + "\x00"
							} else if firstRender != string(out)+"\x00" {
								d := det()
								d["this_output"] = string(out)
								d["first_output"] = firstRender
								c.Fail("", fmt.Sprintf("rendered output of %s differs between two runs over the same logs", q.q), d)
								return
							}
							c.Count("renders_compared", 1)
						}
						c.Count("runs_compared", 1)
						if g != nil {
							c.Seen("completion_orders", fmt.Sprintf("n%d:%s", n, g.observed()))
						}
						if n >= 2 && len(canon) > 10 {
							c.Nontrivial(fmt.Sprintf("%d|%d|%s|%d", c.Idx, n, q.name, pi))
						}
					}
				}
				c.Seen("queries", q.name)
			}
		}
		if c.Idx == 0 {
			c.Sample("orders", map[string]any{"queries": c18Queries, "containers": "1..5", "repetitions_per_order": reps})
		}
	})

	// map-iteration orders inside single stages: the same evaluation repeated over an in-memory storage
	mapQueries := []string{
		`{job="j"} | json o, o2="o", o3="o"`, `{job="j"} | json a="x.y", b="x.y", c="x"`, `{job="j"} | json | drop msg`, `{job="j"} | json | keep a, x, o`,
		`{job="j"} | logfmt | drop msg`, `{job="j"} | json | label_format p="{{.a}}", q="{{.b}}", r="{{.o}}"`, `{job="j"} | json | label_format z=a, y=b`,
		`{job="j"} | regexp "(?P<a>\\w+) (?P<b>\\w+)" | drop msg`, `sum by (a, b) (count_over_time({job="j"} | json | drop msg [10s]))`,
		// templates that read the current line / timestamp: every evaluation starts from its own records
		`{job="j"} | line_format "<{{ __line__ }}>" | drop msg`, `{job="j"} | label_format seen="{{ __timestamp__ | unixEpochNanos }}", l="{{ __line__ }}" | drop msg`,
		`sum by (seen) (count_over_time({job="j"} | label_format seen="{{ __line__ }}" | drop msg [10s]))`,
		// keys of one object that collide once sanitised (u.id, u_id, u-id): whichever wins, it wins every time
		`sum by (u_id) (count_over_time({job="j"} | json | drop msg [10s]))`, `{job="j"} | json | line_format "{{ .u_id }}" | keep u_id`,
		// stages that remove or keep only one of the two labels describing a failure (every fourth line
		// fails `| json`, every line fails the typed comparison)
		`{job="j"} | json | drop __error__`, `{job="j"} | json | drop __error__, msg`, `{job="j"} | json | drop __error_details__, msg`, `{job="j"} | json | keep __error__`,
		`{job="j"} | json | keep __error_details__, a`, `{job="j"} | json | drop __error__="JSONParserErr", msg`, `{job="j"} | logfmt | a > 5 | drop __error__, msg`,
		`count_over_time({job="j"} | json | drop __error__, msg [10s])`, `sum by (__error_details__) (count_over_time({job="j"} | json | drop __error__ [10s]))`,
		`{job="j"} | json | label_format e="{{ .__error__ }}" | drop __error__, msg`, `{job="j"} | unpack | drop __error__, msg`,
		// names equal up to case are different names; the records keeping only them share one label set
		`{job="j"} | json | keep Host, host, HOST`, `{job="j"} | logfmt | keep Host, host, HOST, job`, `count_over_time({job="j"} | json | keep Host, host [10s])`,
		`avg(sum_over_time({job="j"} | json | drop msg | unwrap n [10s])) by (a)`, `stddev without (a) (sum_over_time({job="j"} | json | drop msg | unwrap n [10s]))`,
	}
	r.Phase("maporder", r.N(6, 120), func(c *vk.Case) {
		rng := c.Rng
		var recs []Rec
		for i := 0; i < 12; i++ {
			line := fmt.Sprintf(`{"Host":"h1","host":"h2","HOST":"h3","a":"%s","b":"%s","u.id":"dot","u_id":"plain","u-id":"dash","n":%d.%d,"o":{"k%d":1,"z":[%d,null]},"x":{"y":{"deep":%d}}}`, vk.Pick(rng, []string{"p", "q", "r"}), vk.Pick(rng, []string{"u", "v"}), rng.Intn(100), rng.Intn(10), i%3, i, i%4)
			if i%4 == 3 {
				line = fmt.Sprintf("Host=h1 host=h2 HOST=h3 a=%s b=%s n=%d word other", vk.Pick(rng, []string{"p", "q"}), vk.Pick(rng, []string{"u", "v"}), rng.Intn(50))
			}
			recs = append(recs, Rec{TS: c14T0 + int64(i)*5e8 + int64(i), Line: line, Labels: map[string]string{"job": "j", "pod": fmt.Sprint(i % 2)}})
		}
		for _, q := range mapQueries {
			first := ""
			for rep := 0; rep < c.R.N(12, 40); rep++ {
				res, err := evalQuery(&MemQuerier{Recs: recs, ErrAfter: -1}, q, EvalP{Start: c14T0, End: c14T0 + 10e9, Step: 5 * time.Second, Limit: -1})
				c.Eval(1)
				if err != nil {
					c.Fail("", fmt.Sprintf("query %s failed: %v", q, err), map[string]any{"query": q})
					return
				}
				canon := res.Canonical()
				if first == "" {
					first = canon + "\x00"
				} else if first != canon+"\x00" {
					c.Fail("", fmt.Sprintf("query %s over the same records gave different results in two evaluations (repetition %d)", q, rep), map[string]any{"query": q, "records": recs, "this_run": canon, "first_run": first})
					return
				}
				c.Count("maporder_runs_compared", 1)
			}
		}
	})
	r.Require("maporder_runs_compared", 500)

	// containers as real deployments label them: Compose AND Swarm labels on one container, OCI image
	// annotations, 25+ Docker labels (so a sample carries well over 30 labels once a parser stage has
	// run); ungated, every query repeated
	richQueries := []string{
		`{container=~".+"} | drop msg`, `{container=~".+"} | logfmt | drop msg`, `sum by (container) (count_over_time({container=~".+"}[10s]))`,
		`count_over_time({container=~".+"} | logfmt | drop msg [10s])`, `sum by (container, level) (count_over_time({container=~".+"} | logfmt [10s]))`,
		`sum by (service, project) (count_over_time({container=~".+"}[10s]))`, `{service=~".*"} | drop msg`, `sum without (msg, f1, f2) (count_over_time({container=~".+"} | logfmt [10s]))`,
		`max by (com_docker_compose_service, com_docker_swarm_service_name) (bytes_over_time({container=~".+"}[10s]))`,
	}
	r.Phase("rich", r.N(2, 30), func(c *vk.Case) {
		rng := c.Rng
		var inv []CSpec
		for i := 0; i < 3; i++ {
			cs := CSpec{ID: fmt.Sprintf("id%d", i), Name: fmt.Sprintf("/c%d", i), Image: "img", State: "running", Labels: map[string]string{
				"com.docker.compose.service": fmt.Sprintf("web%d", i), "com.docker.swarm.service.name": fmt.Sprintf("stack_web%d", i),
				"com.docker.compose.project": "shop", "com.docker.stack.namespace": "stack", "com.docker.compose.version": "2.24.0",
				"com.docker.compose.container-number": fmt.Sprint(i + 1), "com.docker.compose.oneoff": "False", "com.docker.compose.config-hash": "abc123",
				"com.docker.swarm.node.id": "n1", "com.docker.swarm.task.id": fmt.Sprintf("t%d", i), "com.docker.swarm.task.name": fmt.Sprintf("stack_web.%d", i),
				"org.opencontainers.image.title": "web", "org.opencontainers.image.version": "1.2.3", "org.opencontainers.image.revision": "deadbeef",
				"org.opencontainers.image.source": "https://example.invalid/src", "org.opencontainers.image.licenses": "MIT", "org.opencontainers.image.vendor": "v",
				"org.opencontainers.image.created": "2024-01-01T00:00:00Z", "org.opencontainers.image.url": "u", "org.opencontainers.image.documentation": "d",
				"org.opencontainers.image.description": "desc", "org.opencontainers.image.authors": "a", "org.opencontainers.image.ref.name": "r",
				"maintainer": "m", "tier": vk.Pick(rng, []string{"front", "back"}),
			}}
			for j := 0; j < 4; j++ {
				cs.Frames = append(cs.Frames, Frame{Type: 1, TS: c14T0 + int64(j)*2e9 + int64(i)*1e6 + 1e9,
					Body: fmt.Sprintf("level=%s f1=%d f2=x f3=y f4=z f5=w", vk.Pick(rng, []string{"info", "warn"}), j)})
			}
			inv = append(inv, cs)
		}
		for _, q := range richQueries {
			first := ""
			for rep := 0; rep < c.R.N(25, 60); rep++ {
				fd := newFakeDocker(inv)
				data, err := evalRaw(fd, q, EvalP{Start: c14T0, End: c14T0 + 10e9, Step: 5 * time.Second, Limit: -1})
				c.Eval(1)
				if err != nil {
					c.Fail("", fmt.Sprintf("query %s failed: %v", q, err), map[string]any{"query": q, "inventory": inv})
					return
				}
				res, _ := convertResult(data)
				canon := res.Canonical()
				if first == "" {
					first = canon + "\x00"
				} else if first != canon+"\x00" {
					c.Fail("", fmt.Sprintf("query %s over the same richly labelled containers gave different results in two runs (repetition %d)", q, rep), map[string]any{"query": q, "inventory": inv, "this_run": canon, "first_run": first})
					return
				}
				c.Count("rich_runs_compared", 1)
			}
		}
	})
	r.Require("rich_runs_compared", 300)

	// order-sensitive float arithmetic and NaN ties: running-mean aggregations over whole-number counts
	// (1,2,7 is enough for avg to differ by an ulp between operand orders) and topk/bottomk over groups
	// with more NaN samples than k, where no comparison can break the tie
	floatQueries := []string{
		`avg(count_over_time({job="j"} | drop msg [10s]))`, `stddev(count_over_time({job="j"} | drop msg [10s]))`, `stdvar(count_over_time({job="j"} | drop msg [10s]))`,
		`avg by (grp) (count_over_time({job="j"} | drop msg [10s]))`, `stdvar(sum by (pod) (count_over_time({job="j"} | drop msg [10s])))`, `avg(bytes_over_time({job="j"} | drop msg [10s]))`,
		`topk(1, count_over_time({job="j"} | drop msg [10s]) % 0)`, `bottomk(2, count_over_time({job="j"} | drop msg [10s]) % 0)`, `topk(2, count_over_time({job="j"} | drop msg [10s]) % 0) by (grp)`,
		`topk(2, sum_over_time({job="j"} | logfmt | drop msg | unwrap v [10s]))`, `bottomk(1, max_over_time({job="j"} | logfmt | drop msg | unwrap v [10s]))`,
		`avg(sum_over_time({job="j"} | logfmt | drop msg | unwrap w [10s]))`, `stddev(avg_over_time({job="j"} | logfmt | drop msg | unwrap w [10s]))`,
		// order-sensitive aggregations fed by operators that pass samples on: ratios of two vectors (values
		// like 0.3 that do not add up exactly) and the groups of a grouped top-k
		`avg(sum by (pod) (sum_over_time({job="j"} | logfmt | drop msg | unwrap w [10s])) / sum by (pod) (count_over_time({job="j"} | drop msg [10s])))`,
		`sum(sum by (pod) (sum_over_time({job="j"} | logfmt | drop msg | unwrap w [10s])) / sum by (pod) (count_over_time({job="j"} | drop msg [10s])))`,
		`stddev(sum by (pod) (count_over_time({job="j"} | drop msg [10s])) / sum by (pod) (sum_over_time({job="j"} | logfmt | drop msg | unwrap w [10s])))`,
		`avg(bottomk(1, avg_over_time({job="j"} | logfmt | drop msg | unwrap w [10s]) by (pod)) by (pod))`,
		`sum(topk(1, avg_over_time({job="j"} | logfmt | drop msg | unwrap w [10s]) by (pod) / 10) by (pod))`,
		`stdvar(topk(2, avg_over_time({job="j"} | logfmt | drop msg | unwrap w [10s]) by (pod, grp)) by (grp))`,
	}
	r.Phase("floatorder", r.N(4, 60), func(c *vk.Case) {
		rng := c.Rng
		var recs []Rec
		npods := rng.Range(5, 9)
		for p := 0; p < npods; p++ {
			cnt := vk.Pick(rng, []int{1, 2, 7, 3, 5, 11, 13, 6})
			nan := rng.Chance(2, 3)
			for k := 0; k < cnt; k++ {
				v := fmt.Sprint(rng.Intn(20))
				if nan {
					v = "NaN"
				}
				recs = append(recs, Rec{TS: c14T0 + int64(len(recs))*1e8 + int64(p), Line: fmt.Sprintf("v=%s w=%d", v, vk.Pick(rng, []int{1, 2, 7, 3, 10})),
					Labels: map[string]string{"job": "j", "pod": fmt.Sprint(p), "grp": fmt.Sprint(p % 2)}})
			}
		}
		sortRecs(recs)
		for _, q := range floatQueries {
			first := ""
			for rep := 0; rep < c.R.N(60, 300); rep++ {
				res, err := evalQuery(&MemQuerier{Recs: recs, ErrAfter: -1}, q, EvalP{Start: c14T0, End: c14T0 + 10e9, Step: 5 * time.Second, Limit: -1})
				c.Eval(1)
				if err != nil {
					c.Fail("", fmt.Sprintf("query %s failed: %v", q, err), map[string]any{"query": q})
					return
				}
				canon := res.Canonical()
				if first == "" {
					first = canon + "\x00"
				} else if first != canon+"\x00" {
					c.Fail("", fmt.Sprintf("query %s over the same records gave different results in two evaluations (repetition %d)", q, rep), map[string]any{"query": q, "records": recs, "this_run": canon, "first_run": first})
					return
				}
				c.Count("floatorder_runs_compared", 1)
			}
		}
	})
	r.Require("floatorder_runs_compared", 2000)

	// tied timestamps across containers: the outcome of limit / first / last must not depend on which
	// request completed first
	tieQueries := []struct {
		q     string
		limit int
	}{
		{`{container=~"c.*"}`, 2}, {`{container=~"c.*"}`, 1}, {`{container=~"c.*"} | drop msg, container, container_id, container_name`, 3},
		{`first_over_time({container=~"c.*"} | logfmt | unwrap v [20s]) by (job)`, -1}, {`last_over_time({container=~"c.*"} | logfmt | unwrap v [20s]) by (job)`, -1},
		{`{container=~"c.*"} | distinct job`, -1},
	}
	r.Phase("ties", r.N(4, 40), func(c *vk.Case) {
		for n := 2; n <= 4; n++ {
			inv := make([]CSpec, n)
			for i := range inv {
				cs := CSpec{ID: fmt.Sprintf("id%d", i), Name: fmt.Sprintf("/c%d", i), Image: "img", State: "running", Labels: map[string]string{"job": "j"}}
				for j := 0; j < 3; j++ {
					// identical timestamps in every container
					cs.Frames = append(cs.Frames, Frame{Type: 1, TS: c14T0 + int64(j)*2e9 + 1e9, Body: fmt.Sprintf("c%d#%d v=%d", i, j, 10*i+j+1)})
				}
				inv[i] = cs
			}
			for _, tq := range tieQueries {
				first := ""
				for _, perm := range permutations(n) {
					fd := newFakeDocker(inv)
					ids := make([]string, n)
					for i, o := range perm {
						ids[i] = inv[o].ID
					}
					g := newOrderGate(ids)
					g.attach(fd)
					data, err := evalRaw(fd, tq.q, EvalP{Start: c14T0, End: c14T0 + 10e9, Step: 5 * time.Second, Limit: tq.limit})
					c.Eval(1)
					if err != nil {
						c.Fail("", fmt.Sprintf("query %s failed: %v", tq.q, err), map[string]any{"query": tq.q})
						return
					}
					res, _ := convertResult(data)
					canon := res.Canonical()
					if first == "" {
						first = canon + "\x00"
					} else if first != canon+"\x00" {
						c.Fail("", fmt.Sprintf("query %s (limit %d) over logs with tied timestamps depends on the completion order %v", tq.q, tq.limit, perm), map[string]any{"inventory": inv, "query": tq.q, "limit": tq.limit, "order": perm, "observed_order": g.observed(), "this_run": canon, "first_run": first})
						return
					}
					c.Count("tie_runs_compared", 1)
					c.Nontrivial(fmt.Sprintf("tie|%d|%d|%s|%v", c.Idx, n, tq.q, perm))
				}
			}
		}
	})

	// logs holding a frame that is not "<timestamp> <message>" (a runtime's panic text written around the
	// logging driver, an empty payload): whatever the tool makes of it -- an error, an entry -- it makes the
	// same of it every time; nothing in the answer may come from the moment the query happens to run
	r.Phase("oddlines", r.N(6, 60), func(c *vk.Case) {
		rng := c.Rng
		n := rng.Range(1, 3)
		inv := c14Inventory(rng, n, 3)
		odd := vk.Pick(rng, []string{"panic: runtime error: index out of range", "not-a-time body", "2024-13-45T00:00:00Z x", "1700000000 epoch seconds", "2024-01-02 03:04:05 space-separated", "T body"})
		at := rng.Intn(len(inv[0].Frames) + 1)
		fr := append([]Frame{}, inv[0].Frames[:at]...)
		fr = append(fr, Frame{Type: byte(1 + rng.Intn(2)), Raw: odd})
		inv[0].Frames = append(fr, inv[0].Frames[at:]...)
		for _, q := range []string{`{container=~".+"}`, `{container=~".+"} | drop msg`, `sum(count_over_time({container=~".+"}[5s]))`} {
			first := ""
			for rep := 0; rep < c.R.N(6, 20); rep++ {
				fd := newFakeDocker(inv)
				data, err := evalRaw(fd, q, EvalP{Start: c14T0 - 10e9, End: c14T0 + 100e9, Step: 5 * time.Second, Limit: -1})
				c.Eval(1)
				outcome := ""
				if err != nil {
					outcome = "error: " + err.Error()
				} else {
					res, _ := convertResult(data)
					outcome = res.Canonical()
				}
				if first == "" {
					first = outcome + "\x00"
				} else if first != outcome+"\x00" {
					c.Fail("", fmt.Sprintf("query %s over a log with the frame %q gave different outcomes in two runs", q, odd), map[string]any{"query": q, "inventory": inv, "this_run": trunc(outcome, 2000), "first_run": trunc(first, 2000)})
					return
				}
				c.Count("oddline_runs_compared", 1)
			}
		}
		c.Nontrivial(fmt.Sprintf("odd|%d", c.Idx))
	})
	r.Require("oddline_runs_compared", 60)

	// one Engine over one Querier answering a session of queries (selective ones first, then everything, then
	// the selective ones again, multi-selector metric queries in between): each answer equals the answer a
	// fresh Engine gives to that query alone -- what was asked before is not part of the question
	r.Phase("sameengine", r.N(8, 80), func(c *vk.Case) {
		rng := c.Rng
		n := rng.Range(3, 5)
		inv := c14Inventory(rng, n, 4)
		last := strings.TrimPrefix(inv[n-1].Name, "/")
		mid := strings.TrimPrefix(inv[n/2].Name, "/")
		session := []string{
			fmt.Sprintf(`{container=%q}`, last),
			fmt.Sprintf(`{container=~"%s|%s"}`, mid, last),
			`{container=~".+"}`,
			fmt.Sprintf(`{container=%q}`, last),
			fmt.Sprintf(`sum(count_over_time({container=~"%s|%s"}[10s])) / sum(count_over_time({container=~".+"}[10s]))`, mid, last),
			`sum by (container) (count_over_time({container=~".+"}[10s]))`,
			fmt.Sprintf(`{container!=%q} | drop msg`, last),
			`{container=~".+"}`,
		}
		p := EvalP{Start: c14T0, End: c14T0 + 10e9, Step: 5 * time.Second, Limit: -1}
		eng := newEngine(dockerQuerier(newFakeDocker(inv)))
		for round := 0; round < 2; round++ {
			for i, q := range session {
				data, err := eng.Eval(context.Background(), q, p.params())
				fresh, ferr := evalRaw(newFakeDocker(inv), q, p)
				c.Eval(2)
				if (err == nil) != (ferr == nil) {
					c.Fail("", fmt.Sprintf("query %d of the session (%s, round %d): error %v on the shared Engine, %v on a fresh one", i+1, q, round+1, err, ferr), map[string]any{"inventory": inv, "session": session})
					return
				}
				if err != nil {
					continue
				}
				a, _ := convertResult(data)
				b, _ := convertResult(fresh)
				if a.Canonical() != b.Canonical() {
					c.Fail("", fmt.Sprintf("query %d of a session on one Engine (%s, round %d) answers differently than on a fresh Engine", i+1, q, round+1), map[string]any{"inventory": inv, "session": session, "shared_engine": a.Canonical(), "fresh_engine": b.Canonical()})
					return
				}
				c.Count("session_answers_compared", 1)
			}
		}
		c.Nontrivial(fmt.Sprintf("session|%d", c.Idx))
	})
	r.Require("session_answers_compared", 100)

	// how the daemon connection happens to hand the bytes over (whole bodies, single bytes, random pieces,
	// empty reads in between, the end reported together with the last bytes) is scheduling, not data: the
	// same logs give the same answer however their transfer is cut up
	r.Phase("segmentation", r.N(6, 60), func(c *vk.Case) {
		rng := c.Rng
		n := rng.Range(1, 4)
		inv := c14Inventory(rng, n, 5)
		for i := range inv {
			if len(inv[i].Frames) > 0 && rng.Bool() {
				inv[i].Frames[0].Body += strings.Repeat(" long line", rng.Range(50, 900)) // frames larger than a transport buffer
			}
		}
		for _, q := range []string{`{container=~".+"}`, `sum by (container) (count_over_time({container=~".+"}[10s]))`} {
			first := ""
			for rep := 0; rep < c.R.N(8, 24); rep++ {
				fd := newFakeDocker(inv)
				plan := "whole"
				if rep > 0 {
					for _, fc := range fd.Containers {
						fc.Plan.FailAt = -1
						switch (rep + len(fc.C.ID) + int(fc.C.ID[len(fc.C.ID)-1])) % 5 {
						case 0:
							fc.Plan.Chunk, plan = 1, "bytes"
						case 1:
							fc.Plan.Chunk, fc.Plan.Seed, plan = -1, uint64(rep)*7919+uint64(c.Idx), "random"
						case 2:
							fc.Plan.Chunk, fc.Plan.ZeroReads, plan = 4096, true, "4k+empty"
						case 3:
							fc.Plan.Chunk, fc.Plan.EOFWithData, plan = 13, true, "13+eof-with-data"
						default:
							fc.Plan.Chunk, plan = 8+rep, "small"
						}
					}
				}
				data, err := evalRaw(fd, q, EvalP{Start: c14T0, End: c14T0 + 10e9, Step: 5 * time.Second, Limit: -1})
				c.Eval(1)
				outcome := ""
				if err != nil {
					outcome = "error: " + err.Error()
				} else {
					res, _ := convertResult(data)
					outcome = res.Canonical()
				}
				if first == "" {
					first = outcome + "\x00"
				} else if first != outcome+"\x00" {
					c.Fail("", fmt.Sprintf("query %s: the same logs transferred in other pieces (%s) give a different outcome", q, plan), map[string]any{"query": q, "inventory": inv, "this_run": trunc(outcome, 1500), "first_run": trunc(first, 1500)})
					return
				}
				c.Count("segmentations_compared", 1)
				c.Seen("segmentation_plans", plan)
			}
		}
		c.Nontrivial(fmt.Sprintf("seg|%d", c.Idx))
	})
	r.Require("segmentations_compared", 60)

	r.Phase("stress", r.N(6, 60), func(c *vk.Case) {
		inv := c14Inventory(c.Rng, 64, 3)
		for i := range inv {
			inv[i].Labels = map[string]string{"a.b": fmt.Sprint(i % 3), "a-b": fmt.Sprint(i % 5)}
		}
		for _, q := range c18Queries[:6] {
			first := ""
			for rep := 0; rep < 3; rep++ {
				fd := newFakeDocker(inv)
				data, err := evalRaw(fd, q.q, EvalP{Start: c14T0, End: c14T0 + 10e9, Step: 2 * time.Second, Limit: -1})
				c.Eval(1)
				if err != nil {
					c.Fail("", "stress query failed: "+err.Error(), map[string]any{"query": q.q})
					return
				}
				res, _ := convertResult(data)
				canon := res.Canonical()
				if first == "" {
					first = canon + "\x00"
				} else if first != canon+"\x00" {
					c.Fail("", fmt.Sprintf("64-container query %s gave different results in two runs", q.q), map[string]any{"query": q.q, "inventory": inv, "this_run": canon, "first_run": first})
					return
				}
				c.Count("stress_runs", 1)
			}
		}
	})

	// end to end: the plugin binary run repeatedly over the same daemon state must print the same bytes
	r.Phase("e2e", r.N(3, 12), func(c *vk.Case) {
		inv := c14Inventory(c.Rng, 5, 4)
		for i := range inv {
			inv[i].Labels = map[string]string{"a.b": "dot", "a-b": "dash", "a/b": fmt.Sprint(i)}
		}
		d, err := startFakeDaemon(inv, false)
		if err != nil {
			c.R.Inconclusive("fake daemon: " + err.Error())
			return
		}
		defer d.Close()
		for _, q := range []string{`{container=~"c.*"}`, `{a_b=~".+"} | logfmt | v != "2"`, `{container=~"c.*"} | drop msg`} {
			first := ""
			for rep := 0; rep < c.R.N(5, 30); rep++ {
				pr, err := runPlugin(d, 60*time.Second, q, "--start", fmt.Sprint(c14T0/1e9-10), "--end", fmt.Sprint(c14T0/1e9+100), "--color=false")
				c.Eval(1)
				if err != nil {
					c.R.Inconclusive("cannot run plugin binary: " + err.Error())
					return
				}
				if pr.TimedOut || pr.Exit != 0 {
					c.Fail("", fmt.Sprintf("plugin failed on %s: exit=%d %s", q, pr.Exit, trunc(string(pr.Stderr), 300)), map[string]any{"query": q, "stderr": string(pr.Stderr)})
					return
				}
				if first == "" {
					first = string(pr.Stdout) + "\x00"
				} else if first != string(pr.Stdout)+"\x00" {
					c.Fail("", fmt.Sprintf("plugin printed different output for %s in run %d", q, rep), map[string]any{"query": q, "inventory": inv, "this_output": string(pr.Stdout), "first_output": first})
					return
				}
				c.Count("e2e_runs_compared", 1)
			}
		}
	})
	r.Require("e2e_runs_compared", 30)

	// what the engine says ABOUT a record (the error labels a failing stage sets) is part of the answer: it is
	// text about the data, the same every time -- never an address, a counter or a moment of this run
	r.Phase("errortext", r.N(6, 60), func(c *vk.Case) {
		rng := c.Rng
		vals := []string{"true", "false", "1", `{"hit":1}`, `[1,2]`, `"yes"`, "null", "0.5", `"12"`, `[]`, `{}`}
		inv := make([]CSpec, rng.Range(1, 3))
		for i := range inv {
			inv[i] = CSpec{ID: fmt.Sprintf("id%d", i), Name: fmt.Sprintf("/c%d", i), Image: "img", State: "running", Labels: map[string]string{"job": "j"}}
			for j := 0; j < rng.Range(3, 8); j++ {
				inv[i].Frames = append(inv[i].Frames, Frame{Type: 1, TS: c14T0 + int64(j)*1e9 + int64(i)*1000, Body: fmt.Sprintf(`{"cached":%s,"dur":%s,"ip":%s,"n":%d}`, vk.Pick(rng, vals), vk.Pick(rng, vals), vk.Pick(rng, vals), j)})
			}
		}
		for _, q := range []string{`{container=~".+"} | json | cached > 0`, `{container=~".+"} | json | dur > 1s or cached >= 1`, `{container=~".+"} | json | ip = ip("10.0.0.0/8")`, `{container=~".+"} | json cached, dur | dur < 1KB | drop msg`,
			`count_over_time({container=~".+"} | json | cached > 0 [1h])`, `{container=~".+"} | json | label_format x="{{ div .n .cached }}" | line_format "{{ .dur | duration }}"`} {
			first := ""
			for rep := 0; rep < c.R.N(4, 10); rep++ {
				data, err := evalRaw(newFakeDocker(inv), q, EvalP{Start: c14T0 - 1e9, End: c14T0 + 3600e9, Step: 600 * time.Second, Limit: -1})
				c.Eval(1)
				outcome := ""
				if err != nil {
					outcome = "error: " + err.Error()
				} else {
					res, _ := convertResult(data)
					outcome = res.Canonical()
				}
				if first == "" {
					first = outcome + "\x00"
				} else if first != outcome+"\x00" {
					c.Fail("", fmt.Sprintf("query %s gives a different answer when it is evaluated again over the same logs", q), map[string]any{"query": q, "inventory": inv, "this_run": trunc(outcome, 3000), "first_run": trunc(first, 3000)})
					return
				}
				c.Count("errortext_runs_compared", 1)
			}
		}
		c.Nontrivial(fmt.Sprintf("errortext|%d", c.Idx))
	})
	r.Require("errortext_runs_compared", 100)

	// ONE container refuses its log (removed between the listing and the request, unreadable driver, ...) while
	// the others answer: whatever the tool makes of that -- the query fails, or it answers without that
	// container -- it makes the same of it in every completion order of the concurrent requests
	r.Phase("onerefusal", r.N(3, 30), func(c *vk.Case) {
		for n := 2; n <= 4; n++ {
			inv := c14Inventory(c.Rng, n, 3)
			refuser := c.Rng.Intn(n)
			for qi, q := range []string{`{container=~".+"}`, `sum(count_over_time({container=~".+"}[10s]))`, `{container=~".+"} | drop msg`} {
				// "no such container" (removed since the listing) and one other class of refusal per case
				class := c14OpenErrs[1]
				if qi == 1 {
					class = c14OpenErrs[(c.Idx+n)%len(c14OpenErrs)]
				}
				first, firstOrder := "", []int(nil)
				for _, perm := range permutations(n) {
					fd := newFakeDocker(inv)
					fd.Containers[refuser].LogsErr = class
					ids := make([]string, n)
					for i, o := range perm {
						ids[i] = inv[o].ID
					}
					newOrderGate(ids).attach(fd)
					data, err := evalRaw(fd, q, EvalP{Start: c14T0, End: c14T0 + 10e9, Step: 5 * time.Second, Limit: -1})
					c.Eval(1)
					outcome := "error"
					if err == nil {
						res, _ := convertResult(data)
						outcome = "answer: " + res.Canonical()
					}
					if first == "" {
						first, firstOrder = outcome+"\x00", perm
					} else if first != outcome+"\x00" {
						c.Fail("", fmt.Sprintf("query %s with container %d of %d refusing its log (%v): completion order %v gives %s, order %v gave %s", q, refuser, n, class, perm, trunc(outcome, 60), firstOrder, trunc(first, 60)), map[string]any{"inventory": inv, "query": q, "refusing": inv[refuser].ID, "order": perm, "this_run": trunc(outcome, 1500), "first_run": trunc(first, 1500)})
						return
					}
					c.Count("onerefusal_runs_compared", 1)
				}
			}
		}
		c.Nontrivial(fmt.Sprintf("onerefusal|%d", c.Idx))
	})
	r.Require("onerefusal_runs_compared", 150)

	// the failure paths of the concurrent opening run under the race detector as well: several
	// containers refuse their log in the same query (the ungated requests fail at the same moment)
	r.Phase("multifail", r.N(3, 40), func(c *vk.Case) {
		for n := 2; n <= 5; n++ {
			inv := c14Inventory(c.Rng, n, 3)
			for rep := 0; rep < c.R.N(15, 40); rep++ {
				fd := newFakeDocker(inv)
				failing := 0
				for i, fc := range fd.Containers {
					if i < 2 || c.Rng.Bool() {
						// refusals of different classes (gone, dead, unreadable driver, ...): whichever of them
						// completes first, the query has failed
						fc.LogsErr = c14OpenErrs[(rep+i*3+failing)%len(c14OpenErrs)]
						failing++
					}
				}
				if n <= 4 {
					// the completion order of the n requests is forced, a different one each repetition
					perms := permutations(n)
					perm := perms[rep%len(perms)]
					ids := make([]string, n)
					for i, o := range perm {
						ids[i] = inv[o].ID
					}
					newOrderGate(ids).attach(fd)
					c.Seen("multifail_forced_orders", fmt.Sprintf("n%d:%v", n, perm))
				}
				_, err := evalRaw(fd, `{container=~".+"}`, EvalP{Start: c14T0, End: c14T0 + 10e9, Step: 2 * time.Second, Limit: -1})
				c.Eval(1)
				if err == nil {
					c.Fail("", fmt.Sprintf("%d of %d containers refused their log but the query succeeded", failing, n), map[string]any{"inventory": inv})
					return
				}
				op, cl, _, _ := fd.Ledger()
				if op != cl {
					c.Fail("", fmt.Sprintf("%d of %d opens failed: %d readers opened, %d closed", failing, n, op, cl), map[string]any{"inventory": inv})
					return
				}
				c.Count("multifail_queries", 1)
			}
		}
	})
	r.Require("multifail_queries", 100)

	blocks, distinct := collectRaceReports("C18")
	r.SetExtra("race_report_blocks", blocks)
	r.SetExtra("race_reports_distinct", len(distinct))
	if blocks > 0 {
		r.Phase("race", 1, func(c *vk.Case) {
			c.Fail("", fmt.Sprintf("%d data race report(s), %d distinct", blocks, len(distinct)), map[string]any{"reports": distinct})
		})
	}
	r.Require("runs_compared", 4000)
	r.Require("renders_compared", 1000)
	r.Require("distinct:completion_orders", 150)
	r.Require("stress_runs", 50)
	r.Require("tie_runs_compared", 500)
}

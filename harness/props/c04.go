//go:build verif

package props

import (
	"context"
	"fmt"
	"regexp"
	"strings"
	"time"

	"github.com/tdakkota/docker-logql/internal/iterators"
	"github.com/tdakkota/docker-logql/internal/logql"
	"github.com/tdakkota/docker-logql/internal/logql/logqlengine"
	"github.com/tdakkota/docker-logql/internal/logstorage"
	"github.com/tdakkota/docker-logql/internal/otelstorage"
	"github.com/tdakkota/docker-logql/internal/zzverif/vk"
)

func init() {
	register("C04", "exploration", 8*time.Minute, 45*time.Minute, runC04)
}

// genMergeInventory builds n containers with time-ordered logs, line ids c<i>#<j> (or identical lines across replicas),
// ties within and across containers and some empty logs.
// genMergeInventoryT: genMergeInventory, and in one inventory of four some containers share what looks like
// an identity without being one (round 18): two nameless containers, two containers carrying the same user
// label container=..., a container whose user label container= is the name of another. A container is
// identified by its id; its records are told apart by container_id, so nothing else changes for the checkers.
func genMergeInventoryT(r *vk.RNG, n int, maxRecs int) []CSpec {
	inv := genMergeInventory(r, n, maxRecs)
	if n < 2 || !r.Chance(1, 4) {
		return inv
	}
	i := r.Intn(n)
	j := (i + 1 + r.Intn(n-1)) % n
	switch r.Intn(3) {
	case 0:
		inv[i].Name, inv[j].Name = "", ""
	case 1:
		inv[i].Labels["container"], inv[j].Labels["container"] = "same", "same"
	default:
		inv[j].Labels["container"] = strings.TrimPrefix(inv[i].Name, "/")
	}
	return inv
}

func genMergeInventory(r *vk.RNG, n int, maxRecs int) []CSpec {
	inv := make([]CSpec, n)
	base := int64(1700000000) * 1e9
	if r.Chance(1, 6) {
		// logs that straddle a power-of-two boundary of the nanosecond count (2^48 ns is about 78 hours):
		// timestamps are compared whole, not by some of their bits
		base = int64(6040)<<48 - 2e9
	}
	nonMono := r.Chance(1, 4)
	// one inventory in five: replicas that log the same lines at the same instants (records are then
	// identical across containers, and a record may be repeated inside one container as well);
	// records are told apart by the container they carry, never by their text
	shared := r.Chance(1, 5)
	for i := range inv {
		cs := CSpec{ID: fmt.Sprintf("id%02d", i), Name: fmt.Sprintf("/c%d", i), Image: "img", State: "running", Labels: map[string]string{"idx": fmt.Sprint(i)}}
		if r.Chance(1, 6) {
			cs.Aliases = []string{fmt.Sprintf("/c%d/alias", (i+1)%n), fmt.Sprintf("/other/c%d", i)}
		}
		k := r.Range(0, maxRecs)
		if r.Chance(1, 6) {
			k = 0
		}
		// one inventory in four has containers whose own log is NOT time-ordered: exactly-once and
		// own-order are unconditional, only the global time order is conditional on ordered inputs
		backwards := nonMono && r.Chance(1, 2)
		ts := base + int64(r.Intn(4))*1e9
		for j := 0; j < k; j++ {
			switch r.Intn(4) {
			case 0: // tie with previous record of this container
			case 1:
				ts += 1e9 // whole seconds: collide across containers
			case 2:
				ts += int64(r.Intn(3)) * 5e8
			default:
				ts += int64(r.Intn(1000)) + 1
			}
			if backwards && r.Chance(1, 4) {
				ts -= int64(r.Range(1, 3)) * 7e8 // this container's clock stepped back
			}
			typ := byte(1 + r.Intn(2))
			body := fmt.Sprintf("c%d#%d", i, j)
			if shared {
				ts = base + int64(j)*1e9
				body = fmt.Sprintf("r%d", j)
				typ = 1
			}
			if j > 0 && r.Chance(1, 8) {
				// the same line again in the same clock tick
				prev := cs.Frames[len(cs.Frames)-1]
				ts, body, typ = prev.TS, prev.Body, prev.Type
			}
			cs.Frames = append(cs.Frames, Frame{Type: typ, TS: ts, Body: body})
		}
		inv[i] = cs
	}
	return inv
}

type mergedRec struct {
	TS   int64  `json:"ts"`
	Line string `json:"line"`
	CID  string `json:"container_id"`
}

func drainSelect(fd *FakeDocker) ([]mergedRec, error, error) {
	q := dockerQuerier(fd)
	it, err := q.SelectLogs(context.Background(), otelstorage.Timestamp(1600000000e9), otelstorage.Timestamp(1800000000e9), logqlengine.SelectLogsParams{})
	if err != nil {
		return nil, err, nil
	}
	var out []mergedRec
	var rec logstorage.Record
	for it.Next(&rec) {
		cid := ""
		if v, ok := rec.ResourceAttrs.AsMap().Get("container_id"); ok {
			cid = v.Str()
		}
		out = append(out, mergedRec{TS: int64(rec.Timestamp), Line: rec.Body, CID: cid})
		if len(out) > 100000 {
			break
		}
	}
	iterErr := it.Err()
	_ = it.Close()
	return out, nil, iterErr
}

// abandonMerge opens a merge, reads at most k records and closes it.
func abandonMerge(fd *FakeDocker, k int) int {
	q := dockerQuerier(fd)
	it, err := q.SelectLogs(context.Background(), otelstorage.Timestamp(1600000000e9), otelstorage.Timestamp(1800000000e9), logqlengine.SelectLogsParams{})
	if err != nil {
		return -1
	}
	var rec logstorage.Record
	n := 0
	for n < k && it.Next(&rec) {
		n++
	}
	_ = it.Close()
	return n
}

// checkMerged is the offline checker: exactly-once, time order, per-container order, origin labels.
func checkMerged(inv []CSpec, got []mergedRec) string {
	ordered := true
	byID := map[string]CSpec{}
	total := 0
	for _, c := range inv {
		byID[c.ID] = c
		total += len(c.Frames)
		for j := 1; j < len(c.Frames); j++ {
			if c.Frames[j].TS < c.Frames[j-1].TS {
				ordered = false
			}
		}
	}
	// A record is identified by the container whose labels it carries and its position in that
	// container's log: the k-th record delivered for a container must be the k-th record it wrote.
	// That is exactly-once + own order + origin labels, and it holds for identical lines too.
	next := map[string]int{}
	for i, g := range got {
		c, ok := byID[g.CID]
		if !ok {
			return fmt.Sprintf("position %d: record %q carries container id %q, which is not in the inventory", i, g.Line, g.CID)
		}
		k := next[g.CID]
		if k >= len(c.Frames) {
			return fmt.Sprintf("position %d: container %s delivered %d records but wrote %d (record %q ts=%d delivered again or invented)", i, g.CID, k+1, len(c.Frames), g.Line, g.TS)
		}
		if f := c.Frames[k]; f.Body != g.Line || f.TS != g.TS {
			what := "own order broken, a record missing, or a record altered"
			if k > 0 && c.Frames[k-1].Body == g.Line && c.Frames[k-1].TS == g.TS {
				what = "record delivered twice"
			}
			return fmt.Sprintf("position %d: record #%d of container %s is (%d, %q) but (%d, %q) was delivered: %s", i, k, g.CID, f.TS, f.Body, g.TS, g.Line, what)
		}
		next[g.CID]++
		if ordered && i > 0 && got[i-1].TS > g.TS {
			return fmt.Sprintf("position %d: timestamp decreases (%d after %d)", i, g.TS, got[i-1].TS)
		}
	}
	for _, c := range inv {
		if next[c.ID] != len(c.Frames) {
			f := c.Frames[next[c.ID]]
			return fmt.Sprintf("record #%d (%d, %q) of container %s missing from the merged stream (%d of %d delivered)", next[c.ID], f.TS, f.Body, c.ID, len(got), total)
		}
	}
	return ""
}

func seqString(got []mergedRec) string {
	var sb strings.Builder
	for _, g := range got {
		sb.WriteString(g.CID)
		sb.WriteByte(':')
		sb.WriteString(g.Line)
		sb.WriteByte(' ')
	}
	return sb.String()
}

func runC04(r *vk.Run) {
	r.SetRule("inventories of N containers with time-ordered logs (unique line ids, ties within/across containers, empty logs) are merged by dockerlog.Querier.SelectLogs over a fake Docker client whose ContainerLogs calls are gated; " +
		"phase orders: ALL N! completion orders for N=0..5; phase sampled: 24 random orders for N=6..8; phase stress: ungated 64-container merges. Offline checker: exactly-once, time order, per-container order, origin labels, same sequence for every order. " +
		"non-trivial = distinct (inventory, completion order) with >=2 containers and >=1 record. All runs under the Go race detector.")
	r.Assume("global time order is asserted only when every container's own log is time-ordered (one inventory in four has clock step-backs; exactly-once, own order and order-independence are asserted regardless)", "gating controls the order in which ContainerLogs calls return; the goroutine's store of its iterator follows within a few scheduler yields")
	r.SetExhaustive(true)
	if !raceEnabled {
		r.Inconclusive("binary not built with -race")
	}

	runOrder := func(c *vk.Case, inv []CSpec, order []int, ref *string) bool {
		if len(inv) >= 2 && c.Rng.Chance(1, 3) {
			// an earlier merge of the same process that was closed before it was drained (a query that
			// hit its limit): nothing of it may leak into the merge under observation
			if n := abandonMerge(newFakeDocker(inv), c.Rng.Range(0, 3)); n >= 0 {
				c.Count("abandoned_merges_before", 1)
			}
		}
		fd := newFakeDocker(inv)
		var g *orderGate
		if order != nil && len(inv) >= 2 {
			ids := make([]string, len(order))
			for i, o := range order {
				ids[i] = inv[o].ID
			}
			g = newOrderGate(ids)
			g.attach(fd)
		}
		got, openErr, iterErr := drainSelect(fd)
		c.Eval(1)
		det := func() map[string]any {
			d := map[string]any{"inventory": inv, "order": order, "merged": got}
			if g != nil {
				d["observed_order"] = g.observed()
			}
			return d
		}
		if openErr != nil || iterErr != nil {
			c.Fail("", fmt.Sprintf("merge failed without any fault: open=%v iter=%v", openErr, iterErr), det())
			return false
		}
		if msg := checkMerged(inv, got); msg != "" {
			c.Fail("", msg, det())
			return false
		}
		s := seqString(got)
		if *ref == "" {
			*ref = s + "."
		} else if *ref != s+"." {
			d := det()
			d["reference_sequence"] = *ref
			c.Fail("", "merged sequence depends on the completion order", d)
			return false
		}
		op, cl, _, proto := fd.Ledger()
		if op != cl || len(proto) > 0 {
			c.Fail("", fmt.Sprintf("readers opened=%d closed=%d protocol=%v", op, cl, proto), det())
			return false
		}
		c.Count("records_merged", len(got))
		if g != nil {
			c.Seen("completion_orders", fmt.Sprintf("n%d:%s", len(inv), g.observed()))
			if g.timedOut {
				c.Count("gate_timeouts", 1)
			}
			want := ""
			for i, o := range order {
				if i > 0 {
					want += ">"
				}
				want += inv[o].ID
			}
			if g.observed() == want {
				c.Count("orders_realised_as_planned", 1)
			}
			if len(got) > 0 {
				c.Nontrivial(fmt.Sprintf("%d/%s/%v", c.Idx, c.Phase, order))
			}
		}
		return true
	}

	// all completion orders, N = 0..5
	r.Phase("orders", r.N(16, 2500), func(c *vk.Case) {
		for n := 0; n <= 5; n++ {
			inv := genMergeInventoryT(c.Rng, n, 6)
			ref := ""
			ties := 0
			tsSeen := map[int64]bool{}
			for _, cs := range inv {
				for _, f := range cs.Frames {
					if tsSeen[f.TS] {
						ties++
					}
					tsSeen[f.TS] = true
				}
			}
			c.Count("ties", ties)
			if n < 2 {
				runOrder(c, inv, nil, &ref)
				continue
			}
			for _, p := range permutations(n) {
				if !runOrder(c, inv, p, &ref) {
					return
				}
			}
			c.Count("inventories_all_orders", 1)
			if c.Idx == 0 && n == 3 {
				c.Sample("orders", map[string]any{"inventory": inv, "orders": permutations(n), "sequence": ref})
			}
		}
	})

	r.Phase("sampled", r.N(6, 1200), func(c *vk.Case) {
		n := c.Rng.Range(6, 8)
		inv := genMergeInventoryT(c.Rng, n, 8)
		ref := ""
		for k := 0; k < 24; k++ {
			if !runOrder(c, inv, c.Rng.Perm(n), &ref) {
				return
			}
		}
	})

	r.Phase("stress", r.N(20, 3000), func(c *vk.Case) {
		// more containers than CPUs, and not a round number of them (work split per CPU has a remainder)
		inv := genMergeInventoryT(c.Rng, vk.Pick(c.Rng, []int{17, 23, 31, 33, 47, 64, 65, 70}), 12)
		ref := ""
		for k := 0; k < 3; k++ {
			if !runOrder(c, inv, nil, &ref) {
				return
			}
		}
		c.Count("stress_merges", 3)
	})

	phaseReuse(r)
	phaseFlaky(r, "C04")
	// a window that ends in the middle of the logs, not on a whole second, in front of a daemon that honours
	// since / until: whatever bounds the client sends, every record the daemon serves that lies inside the
	// window is delivered, once, in its container's own order -- also when a container's clock stepped back
	// and a record inside the window follows one that lies past its end
	r.Phase("window", r.N(300, 30000), func(c *vk.Case) {
		rng := c.Rng
		inv := genMergeInventoryT(rng, rng.Range(1, 4), 10)
		base := int64(1700000000) * 1e9
		start := base - 1e9 + int64(rng.Intn(3))*5e8
		end := base + int64(rng.Range(1, 12))*5e8 + vk.Pick(rng, []int64{0, 1, 250e6, 500e6, 999999999, 123456789})
		fd := newFakeDocker(inv)
		fd.FilterByTime = true
		q := dockerQuerier(fd)
		it, err := q.SelectLogs(context.Background(), otelstorage.Timestamp(start), otelstorage.Timestamp(end), logqlengine.SelectLogsParams{})
		det := map[string]any{"inventory": inv, "start": start, "end": end}
		if err != nil {
			c.Fail("", "SelectLogs failed: "+err.Error(), det)
			return
		}
		got := map[string][]mergedRec{}
		var rec logstorage.Record
		total := 0
		for it.Next(&rec) && total < 100000 {
			cid := ""
			if v, ok := rec.ResourceAttrs.AsMap().Get("container_id"); ok {
				cid = v.Str()
			}
			got[cid] = append(got[cid], mergedRec{TS: int64(rec.Timestamp), Line: rec.Body, CID: cid})
			total++
		}
		iterErr := it.Err()
		_ = it.Close()
		c.Eval(1)
		det["delivered"], det["log_requests"] = got, fd.Calls
		if iterErr != nil {
			c.Fail("", "merge failed without any fault: "+iterErr.Error(), det)
			return
		}
		for _, cs := range inv {
			var served []Frame
			for _, call := range fd.Calls {
				if call.ID == cs.ID {
					served = append(served, filterFrames(cs.Frames, call.Since, call.Until)...)
				}
			}
			// delivered must be a subsequence of what was served ...
			d, matched := got[cs.ID], make([]bool, len(served))
			j := 0
			for _, g := range d {
				for j < len(served) && !(served[j].TS == g.TS && served[j].Body == g.Line) {
					j++
				}
				if j == len(served) {
					c.Fail("", fmt.Sprintf("container %s: record (%d, %q) was delivered but the daemon did not serve it at that place of the log (out of order, twice, or invented)", cs.ID, g.TS, g.Line), det)
					return
				}
				matched[j] = true
				j++
			}
			// ... that holds every served record lying inside the window
			for k, f := range served {
				if f.TS >= start && f.TS <= end && !matched[k] {
					c.Fail("", fmt.Sprintf("container %s: record (%d, %q) lies inside the window [%d, %d] and was served by the daemon, but was not delivered", cs.ID, f.TS, f.Body, start, end), det)
					return
				}
				if f.TS >= start && f.TS <= end {
					c.Count("window_records_required", 1)
				}
			}
		}
		c.Count("window_merges", 1)
		c.Nontrivial(fmt.Sprintf("window|%d", c.Idx))
	})
	r.Require("window_records_required", 500)

	blocks, distinct := collectRaceReports("C04")
	r.SetExtra("race_report_blocks", blocks)
	r.SetExtra("race_reports_distinct", len(distinct))
	if blocks > 0 {
		r.Phase("race", 1, func(c *vk.Case) {
			c.Fail("", fmt.Sprintf("%d data race report(s), %d distinct", blocks, len(distinct)), map[string]any{"reports": distinct})
		})
	}
	// conservation includes "or an error": a container whose stream breaks on its very first frame
	// (a TTY container's raw stream, a reset before the first byte) cannot silently contribute nothing
	r.Phase("brokenfirst", r.N(60, 6000), func(c *vk.Case) {
		rng := c.Rng
		n := rng.Range(2, 5)
		inv := genMergeInventoryT(rng, n, 5)
		bad := rng.Intn(n)
		for len(inv[bad].Frames) == 0 {
			inv[bad].Frames = []Frame{{Type: 1, TS: 1700000000e9, Body: "only"}}
		}
		fd := newFakeDocker(inv)
		kind := vk.Pick(rng, []string{"raw-tty-stream", "reset-before-first-byte", "daemon-error-first", "bad-first-timestamp"})
		switch kind {
		case "raw-tty-stream":
			fd.Containers[bad].Stream = []byte("plain text of a tty container, no frame headers at all\r\nsecond line\r\n")
		case "reset-before-first-byte":
			fd.Containers[bad].Plan.FailAt = 0
			fd.Containers[bad].Plan.FailErr = c14ReadErrs[rng.Intn(len(c14ReadErrs))]
		case "daemon-error-first":
			mod := append([]Frame{{Type: 3, Raw: "error from daemon in stream: boom"}}, inv[bad].Frames...)
			fd.Containers[bad].Stream = EncodeFrames(mod)
		case "bad-first-timestamp":
			mod := append([]Frame(nil), inv[bad].Frames...)
			mod[0].Raw = "2024-13-01T00:00:00.000000000Z x"
			fd.Containers[bad].Stream = EncodeFrames(mod)
		}
		got, openErr, iterErr := drainSelect(fd)
		c.Eval(1)
		if openErr == nil && iterErr == nil {
			c.Fail("", fmt.Sprintf("container %d of %d breaks on its first frame (%s) but the merge reports no error and delivers %d records", bad, n, kind, len(got)), map[string]any{"inventory": inv, "broken": bad, "kind": kind, "merged": got})
			return
		}
		c.Count("broken_first_frame_merges", 1)
	})
	r.Require("broken_first_frame_merges", 40)
	r.Require("inventories_all_orders", 12)
	r.Require("distinct:completion_orders", 150)
	r.Require("orders_realised_as_planned", 400)
}

// phaseReuse is shared by C03 (nothing lost or altered) and C04 (every record of every selected container
// exactly once, in order): both are statements about every selection a Querier serves, not only its first.
func phaseReuse(r *vk.Run) {
	// one Querier serving several selections, as a query with several selectors makes it do: one after
	// another (each drained and closed before the next is opened), or all open at once and drained in
	// turn. Every selection delivers exactly the records of the containers IT selects, whatever the
	// Querier served before or serves at the same time
	r.Phase("reuse", r.N(300, 30000), func(c *vk.Case) {
		rng := c.Rng
		inv := genMergeInventoryT(rng, rng.Range(3, 8), 6)
		fd := newFakeDocker(inv)
		q := dockerQuerier(fd)
		nsel := rng.Range(2, 4)
		subs := make([][]CSpec, nsel)
		for s := range subs {
			switch rng.Intn(4) {
			case 0: // everything
				subs[s] = inv
			case 1: // a tail of the listing (not a prefix of it)
				subs[s] = inv[rng.Range(1, len(inv)-1):]
			default:
				for _, cs := range inv {
					if rng.Bool() {
						subs[s] = append(subs[s], cs)
					}
				}
				if len(subs[s]) == 0 {
					subs[s] = inv[len(inv)-1:]
				}
			}
		}
		open := func(sub []CSpec) (iterators.Iterator[logstorage.Record], error) {
			var params logqlengine.SelectLogsParams
			if len(sub) != len(inv) {
				ids := make([]string, len(sub))
				for i, cs := range sub {
					ids[i] = cs.ID
				}
				src := strings.Join(ids, "|")
				params.Labels = []logql.LabelMatcher{{Label: "container_id", Op: logql.OpRe, Value: src, Re: regexp.MustCompile("^(?:" + src + ")$")}}
			}
			return q.SelectLogs(context.Background(), otelstorage.Timestamp(1600000000e9), otelstorage.Timestamp(1800000000e9), params)
		}
		got := make([][]mergedRec, nsel)
		read := func(s int, it iterators.Iterator[logstorage.Record]) bool {
			var rec logstorage.Record
			if !it.Next(&rec) {
				return false
			}
			cid := ""
			if v, ok := rec.ResourceAttrs.AsMap().Get("container_id"); ok {
				cid = v.Str()
			}
			got[s] = append(got[s], mergedRec{TS: int64(rec.Timestamp), Line: rec.Body, CID: cid})
			return len(got[s]) < 100000
		}
		mode := vk.Pick(rng, []string{"one-after-another", "all-open-drained-in-order", "all-open-drained-in-turn", "all-open-drained-last-first"})
		det := func() map[string]any {
			return map[string]any{"inventory": inv, "selections": subs, "mode": mode, "delivered": got}
		}
		fail := func(s int, what string) {
			c.Fail("", fmt.Sprintf("selection %d of %d on one Querier (%s, %d of %d containers selected): %s", s+1, nsel, mode, len(subs[s]), len(inv), what), det())
		}
		if mode == "one-after-another" {
			for s := range subs {
				it, err := open(subs[s])
				if err != nil {
					fail(s, "SelectLogs failed: "+err.Error())
					return
				}
				for read(s, it) {
				}
				err = it.Err()
				_ = it.Close()
				if err != nil {
					fail(s, "iterator failed: "+err.Error())
					return
				}
			}
		} else {
			its := make([]iterators.Iterator[logstorage.Record], nsel)
			for s := range subs {
				it, err := open(subs[s])
				if err != nil {
					fail(s, "SelectLogs failed: "+err.Error())
					return
				}
				its[s] = it
			}
			switch mode {
			case "all-open-drained-in-order":
				for s := range its {
					for read(s, its[s]) {
					}
				}
			case "all-open-drained-last-first":
				for s := nsel - 1; s >= 0; s-- {
					for read(s, its[s]) {
					}
				}
			default:
				live := nsel
				done := make([]bool, nsel)
				for live > 0 {
					for s := range its {
						if !done[s] && !read(s, its[s]) {
							done[s] = true
							live--
						}
					}
				}
			}
			for s := range its {
				err := its[s].Err()
				_ = its[s].Close()
				if err != nil {
					fail(s, "iterator failed: "+err.Error())
					return
				}
			}
		}
		c.Eval(nsel)
		for s := range subs {
			if msg := checkMerged(subs[s], got[s]); msg != "" {
				fail(s, msg)
				return
			}
		}
		if op, cl, _, _ := fd.Ledger(); op != cl {
			c.Fail("", fmt.Sprintf("%d selections on one Querier (%s): %d readers opened, %d closed", nsel, mode, op, cl), det())
			return
		}
		c.Count("selections_on_a_shared_querier", nsel)
		c.Seen("reuse_modes", mode)
		c.Nontrivial(fmt.Sprintf("reuse|%d", c.Idx))
	})
	r.Require("selections_on_a_shared_querier", 500)

}

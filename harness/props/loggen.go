//go:build verif

package props

import (
	"encoding/json"
	"fmt"
	"regexp"
	"sort"
	"strconv"
	"strings"

	"github.com/tdakkota/docker-logql/internal/logql"
	"github.com/tdakkota/docker-logql/internal/zzverif/vk"
)

// Dataset is a generated record set plus what the harness knows about how each line was written.
type Dataset struct {
	Recs   []Rec
	Format string // json | logfmt | plain | access | packed | mixed
	docs   map[string]*FieldDoc
	pairs  map[string][][2]string
	access map[string]map[string]string
	packed map[string]packedInfo
	plainOf map[string]string // coloured line -> line without colour sequences
	HasAddrs bool
	Fields []string // field names that parsers expose in this dataset
}

type packedInfo struct {
	entry  string
	labels map[string]string
}

func (d *Dataset) docOf(line string) (*FieldDoc, bool) { x, ok := d.docs[line]; return x, ok }
func (d *Dataset) pairsOf(line string) ([][2]string, bool) {
	x, ok := d.pairs[line]
	return x, ok
}
func (d *Dataset) accessOf(line string) (map[string]string, bool) {
	x, ok := d.access[line]
	return x, ok
}
func (d *Dataset) packedOf(line string) (string, map[string]string, bool) {
	x, ok := d.packed[line]
	return x.entry, x.labels, ok
}
func (d *Dataset) strip(line string) string {
	if p, ok := d.plainOf[line]; ok {
		return p
	}
	return line
}

// numbers that can be written as a JSON number and whose label text is the same text (no exponent,
// no sign prefix, no leading zeros)
var jsonPlainNumber = regexp.MustCompile(`^-?(0|[1-9][0-9]*)(\.[0-9]+)?$`)

const accessPattern = `<addr> - <user> [<_>] "<method> <path>" <status> <size>`
const accessRegexp = `^(?P<addr>\S+) - (?P<user>\S+) \[[^\]]*\] "(?P<method>\S+) (?P<path>\S+)" (?P<status>\d+) (?P<size>\S+)$`

var (
	genApps   = []string{"web", "api", "db", "web2"}
	genEnvs   = []string{"prod", "dev", "production", ""}
	genPods   = []string{"p1", "p2", "p10"}
	genLevels = []string{"info", "warn", "error", "ERROR", "", "debug"}
	genUsers  = []string{"alice", "bob", "al", "alice2", "a.b*c", "root"}
	genWords  = []string{"GET", "POST", "error", "timeout", "ok", "user", "took", "conn", "reset", "(x)", "a+b", "[z]"}
	genPaths  = []string{"/", "/api/v1", "/api/v2/users", "/healthz", "/x.y"}
)

func pickKeyed[V any](r *vk.RNG, good map[string]V, bad []string, badOdds int) string {
	if len(bad) > 0 && r.Chance(1, badOdds) {
		return vk.Pick(r, bad)
	}
	keys := make([]string, 0, len(good))
	for k := range good {
		keys = append(keys, k)
	}
	sort.Strings(keys)
	return vk.Pick(r, keys)
}

func writeJSONDoc(doc *FieldDoc) string {
	var sb strings.Builder
	sb.WriteByte('{')
	for i, k := range doc.Keys {
		if i > 0 {
			sb.WriteByte(',')
		}
		kb, _ := json.Marshal(k)
		sb.Write(kb)
		sb.WriteByte(':')
		switch v := doc.Vals[k].(type) {
		case json.Number:
			sb.WriteString(v.String())
		default:
			vb, _ := json.Marshal(v)
			sb.Write(vb)
		}
	}
	sb.WriteByte('}')
	return sb.String()
}

func logfmtQuote(v string) string {
	need := v == ""
	for i := 0; i < len(v); i++ {
		c := v[i]
		if c <= ' ' || c == '"' || c == '=' || c == '\\' || c >= 0x7f {
			need = true
		}
	}
	if !need {
		return v
	}
	b, _ := json.Marshal(v) // logfmt quoted values use JSON-style escapes
	return string(b)
}

func writeLogfmt(pairs [][2]string) string {
	parts := make([]string, len(pairs))
	for i, kv := range pairs {
		parts[i] = kv[0] + "=" + logfmtQuote(kv[1])
	}
	return strings.Join(parts, " ")
}

// genDataset builds n records of the given format with unique, increasing timestamps inside (t0, t0+n s).
func genDataset(r *vk.RNG, format string, n int, t0 int64) *Dataset {
	d := &Dataset{Format: format, docs: map[string]*FieldDoc{}, pairs: map[string][][2]string{}, access: map[string]map[string]string{},
		packed: map[string]packedInfo{}, plainOf: map[string]string{}}
	for i := 0; i < n; i++ {
		ts := t0 + int64(i+1)*1e9 + int64(r.Intn(999_999))*1000 + int64(r.Intn(1000))
		labels := map[string]string{"app": vk.Pick(r, genApps)}
		if r.Chance(2, 3) {
			labels["env"] = vk.Pick(r, genEnvs)
		}
		if r.Chance(1, 2) {
			labels["pod"] = vk.Pick(r, genPods)
		}
		id := fmt.Sprintf("r%d", i)
		f := format
		if format == "mixed" {
			f = vk.Pick(r, []string{"json", "json", "plain"})
		}
		fields := [][2]string{
			{"id", id},
			{"level", vk.Pick(r, genLevels)},
			{"status", pickKeyed(r, numValues, numBad, 6)},
			{"dur", pickKeyed(r, durValues, durBad, 6)},
			{"size", pickKeyed(r, bytValues, bytBad, 6)},
			{"addr", func() string {
				if r.Chance(1, 6) {
					return vk.Pick(r, ipBad)
				}
				return vk.Pick(r, ipValues)
			}()},
			{"user", vk.Pick(r, genUsers)},
		}
		// drop some fields so that labels are sometimes missing
		var kept [][2]string
		for j, kv := range fields {
			if j == 0 || r.Chance(4, 5) {
				kept = append(kept, kv)
			}
		}
		var line string
		switch f {
		case "json":
			doc := &FieldDoc{Vals: map[string]any{}}
			for _, kv := range kept {
				doc.Keys = append(doc.Keys, kv[0])
				if _, isNum := numValues[kv[1]]; isNum && kv[0] == "status" && jsonPlainNumber.MatchString(kv[1]) && r.Bool() {
					doc.Vals[kv[0]] = json.Number(kv[1])
				} else {
					doc.Vals[kv[0]] = kv[1]
				}
			}
			if r.Chance(1, 4) {
				doc.Keys = append(doc.Keys, "ok")
				doc.Vals["ok"] = r.Bool()
			}
			if r.Chance(1, 5) {
				doc.Keys = append(doc.Keys, "nothing")
				doc.Vals["nothing"] = nil
			}
			if r.Chance(1, 5) {
				doc.Keys = append(doc.Keys, "req.path")
				doc.Vals["req.path"] = vk.Pick(r, genPaths)
			}
			line = writeJSONDoc(doc)
			d.docs[line] = doc
		case "logfmt":
			line = writeLogfmt(kept)
			d.pairs[line] = kept
		case "access":
			m := map[string]string{}
			for _, kv := range kept {
				m[kv[0]] = kv[1]
			}
			addr := vk.Pick(r, ipValues)
			user := vk.Pick(r, []string{"alice", "bob", "al", "-", "" /* an empty field: the capture before the next literal is empty */})
			method := vk.Pick(r, []string{"GET", "POST", "PUT"})
			path := vk.Pick(r, genPaths)
			status := vk.Pick(r, []string{"200", "404", "500"})
			size := vk.Pick(r, []string{"512", "10KB", "0", "42B"})
			line = fmt.Sprintf(`%s - %s [%s] "%s %s" %s %s`, addr, user, id, method, path, status, size)
			d.access[line] = map[string]string{"addr": addr, "user": user, "method": method, "path": path, "status": status, "size": size}
			d.HasAddrs = true
		case "packed":
			entry := id + " " + vk.Pick(r, genWords) + " " + vk.Pick(r, genWords)
			pl := map[string]string{}
			doc := map[string]any{"_entry": entry}
			for _, kv := range kept[1:] {
				if r.Bool() {
					pl[kv[0]] = kv[1]
					doc[kv[0]] = kv[1]
				}
			}
			if r.Chance(1, 4) {
				doc["n"] = 5 // non-string fields are ignored by unpack
			}
			b, _ := json.Marshal(doc)
			line = string(b)
			if r.Chance(1, 6) {
				// a packed object that breaks AFTER its _entry (cut short, or a key that is no label
				// name): unpack fails, and a failed stage leaves the line as it was
				line = `{"_entry":` + strconv.Quote(entry) + vk.Pick(r, []string{`,"job":"api"`, `,"0job":"api"}`, `,"job":}`, `,"job":"api",`})
			} else {
				d.packed[line] = packedInfo{entry: entry, labels: pl}
			}
		default: // plain
			words := []string{id}
			k := r.Range(1, 5)
			for j := 0; j < k; j++ {
				switch r.Intn(6) {
				case 0:
					words = append(words, vk.Pick(r, ipValues))
					d.HasAddrs = true
				case 1:
					words = append(words, string(r.Bytes(r.Range(1, 4))))
				default:
					words = append(words, vk.Pick(r, genWords))
				}
			}
			line = strings.Join(words, " ")
			// avoid accidental addresses / whitespace inside random bytes changing tokenisation
			lb := []byte(line)
			for bi, c := range lb {
				if c == '\n' || c == '\r' || c == '\t' || c == '\v' || c == '\f' {
					lb[bi] = '_'
				}
			}
			line = string(lb)
			// Docker keeps line terminators in the message and a record may span several lines: anchors
			// of a regex line filter refer to the whole record, not to its lines
			if r.Chance(1, 5) {
				ws := strings.Split(line, " ")
				if len(ws) > 2 {
					k := r.Range(1, len(ws)-1)
					line = strings.Join(ws[:k], " ") + "\n" + strings.Join(ws[k:], " ")
				}
				if r.Bool() {
					line += "\n"
				}
			} else if r.Chance(1, 6) {
				line += vk.Pick(r, []string{"\n", "\r\n"})
			}
		}
		d.Recs = append(d.Recs, Rec{TS: ts, Line: line, Labels: labels})
	}
	switch format {
	case "json", "mixed":
		d.Fields = []string{"id", "level", "status", "dur", "size", "addr", "user", "ok", "req_path"}
	case "logfmt", "packed":
		d.Fields = []string{"id", "level", "status", "dur", "size", "addr", "user"}
	case "access":
		d.Fields = []string{"addr", "user", "method", "path", "status", "size"}
	}
	return d
}

// ---- query generation

type genOpts struct {
	Distinct bool
	Rewrite  bool // label_format / line_format / drop / keep
	MaxStages int
}

func genSelMatchers(r *vk.RNG, n int) []selMatcher {
	var ms []selMatcher
	for i := 0; i < n; i++ {
		lbl := vk.Pick(r, []string{"app", "env", "pod", "nosuch"})
		op := vk.Pick(r, []logql.BinOp{logql.OpEq, logql.OpNotEq, logql.OpRe, logql.OpNotRe})
		var v string
		var pool []string
		switch lbl {
		case "app":
			pool = genApps
		case "env":
			pool = genEnvs
		case "pod":
			pool = genPods
		default:
			pool = []string{"", "x"}
		}
		if op == logql.OpEq || op == logql.OpNotEq {
			v = vk.Pick(r, pool)
			if r.Chance(1, 6) {
				v += "x"
			}
		} else {
			v = vk.Pick(r, []string{"web|api", "p1", "p.*", "prod", "pro", ".*", ".+", "x?", "(web|db)2?", "[a-z]+", "p1|p2", "dev|", "(?i)PROD", "^we|b2$", "^web$", "^p|0$", "^pro|ev$", "(?i)web", "(?i)P1"})
		}
		ms = append(ms, selMatcher{Label: lbl, Op: op, OpS: opText(op), Value: v})
	}
	return ms
}

var lineRegexes = []string{`^\s*$`, `^$`, `ok$`, `^(GET|POST|error|ok)`, `[a-z]$`, "r1[0-9]?", "(?i)error", "^r", `\d+$`, "GET|POST", "a.b", `\(x\)`, "", "x*", "tim(e|ing)out", `"level":"(warn|error)"`, "level=e", `[[:alpha:]]+ - `, `\x00?r2`}

func genLineFilter(r *vk.RNG, d *Dataset, undecided *int) Stage {
	// ip() line filters only where the harness knows every address of a line (whitespace-delimited tokens)
	if (d.Format == "plain" || d.Format == "access") && r.Chance(1, 4) {
		return stLineIP(vk.Pick(r, []string{"|=", "!="}), vk.Pick(r, ipPats), undecided)
	}
	op := vk.Pick(r, []string{"|=", "!=", "|~", "!~"})
	if op == "|~" || op == "!~" {
		if r.Chance(1, 3) {
			// anchored / unanchored literal taken from an actual line (whole line or a fragment)
			line := vk.Pick(r, d.Recs).Line
			frag := line
			if len(line) > 2 && r.Bool() {
				a := r.Intn(len(line) - 1)
				frag = line[a : a+r.Range(1, len(line)-a)]
			}
			src := vk.Pick(r, []string{"", "^", "^"}) + regexp.QuoteMeta(frag) + vk.Pick(r, []string{"", "$", "$"})
			if _, err := regexp.Compile(src); err == nil {
				return stLineFilter(op, src)
			}
		}
		return stLineFilter(op, vk.Pick(r, lineRegexes))
	}
	var needle string
	switch r.Intn(6) {
	case 0:
		needle = ""
	case 1:
		needle = fmt.Sprintf("r%d", r.Intn(30))
	case 2: // a fragment of an actual line
		line := vk.Pick(r, d.Recs).Line
		if len(line) > 0 {
			a := r.Intn(len(line))
			b := a + r.Range(1, 6)
			if b > len(line) {
				b = len(line)
			}
			needle = line[a:b]
		}
	default:
		needle = vk.Pick(r, append(append([]string{}, genWords...), "info", "error", "200", "alice", `"`, "=", " - "))
	}
	return stLineFilter(op, needle)
}

func genLeafPred(r *vk.RNG, d *Dataset) *Pred {
	strLabels := append([]string{"app", "env", "pod", "nosuch"}, d.Fields...)
	cmpOps := []string{"==", "!=", ">", ">=", "<", "<="}
	switch r.Intn(9) {
	case 0, 1, 2:
		lbl := vk.Pick(r, strLabels)
		op := vk.Pick(r, []string{"=", "!=", "=~", "!~"})
		var v string
		if op == "=" || op == "!=" {
			v = vk.Pick(r, []string{"web", "prod", "p1", "info", "error", "alice", "al", "", "200", "GET", "10.0.0.5", "true"})
		} else {
			v = vk.Pick(r, []string{"web|api", "err.*", "(?i)error", "al", "al.*", ".*", ".+", "x?", "[0-9]+", "4..|5..", "p1|p2", "GET|PUT", "^al|ce$", "^err|fo$", "(?i)ALICE", "(?i)info", "^2|4$", "^GET$"})
		}
		return &Pred{Kind: "str", Label: lbl, Op: op, Val: v}
	case 3, 4:
		lit := pickKeyed(r, numLits, nil, 0)
		return &Pred{Kind: "num", Label: vk.Pick(r, []string{"status", "status", "nosuch", "level", "ok"}), Op: vk.Pick(r, cmpOps), Val: lit, Num: numLits[lit]}
	case 5:
		lit := pickKeyed(r, durLits, nil, 0)
		return &Pred{Kind: "dur", Label: vk.Pick(r, []string{"dur", "dur", "nosuch", "level"}), Op: vk.Pick(r, cmpOps), Val: lit}
	case 6:
		lit := pickKeyed(r, bytLits, nil, 0)
		return &Pred{Kind: "bytes", Label: vk.Pick(r, []string{"size", "size", "nosuch", "user"}), Op: vk.Pick(r, cmpOps), Val: lit}
	case 7:
		return &Pred{Kind: "ip", Label: vk.Pick(r, []string{"addr", "addr", "nosuch", "user"}), Op: vk.Pick(r, []string{"==", "!="}), Val: vk.Pick(r, ipPats)}
	default:
		// __error__ checks, the idiomatic way to drop or select flagged lines
		return &Pred{Kind: "str", Label: "__error__", Op: vk.Pick(r, []string{"=", "!="}), Val: ""}
	}
}

// genPred builds a predicate tree; mixed and/or are always parenthesised (precedence inside one
// stage is not fixed by the properties).
func genPred(r *vk.RNG, d *Dataset, depth int) *Pred {
	if depth <= 0 || r.Chance(1, 2) {
		return genLeafPred(r, d)
	}
	wrap := func(p *Pred) *Pred {
		if p.Kind == "and" || p.Kind == "or" {
			return &Pred{Kind: "paren", L: p}
		}
		return p
	}
	l := wrap(genPred(r, d, depth-1))
	rawR := genPred(r, d, depth-1)
	rr := wrap(rawR)
	if r.Bool() {
		// `x or y and z`: an unparenthesised and-chain on the RIGHT of `or` means or(x, and(y, z)) under
		// every reading (conventional precedence, right recursion) and is pinned so by the suite; only
		// `x and y or z` is left unasserted
		if rawR.Kind == "and" && l.Kind != "and" && r.Bool() {
			return &Pred{Kind: "or", L: l, R: rawR}
		}
		return &Pred{Kind: "or", L: l, R: rr}
	}
	sep := vk.Pick(r, []string{" and ", ", ", " "})
	if sep == " " && rr.Kind == "paren" {
		sep = " and " // juxtaposition followed by "(" is read as a new grouping by some grammars; keep it explicit
	}
	return &Pred{Kind: "and", L: l, R: rr, Sep: sep}
}

func genParserStage(r *vk.RNG, d *Dataset) (Stage, bool) {
	switch d.Format {
	case "json", "mixed":
		if r.Chance(1, 3) {
			labels := vk.Subset(r, []string{"level", "status", "user", "id", "addr"})
			if len(labels) > 0 {
				return stJSONLabels(labels, d.docOf), true
			}
		}
		return stJSONAll(d.docOf), true
	case "logfmt":
		if r.Chance(1, 3) {
			labels := vk.Subset(r, []string{"level", "status", "user"})
			ren := map[string]string{}
			// the implementation rejects extracting one key twice in a stage; not generated
			if r.Bool() && !inList(labels, "level") {
				ren["lvl2"] = "level"
			}
			if r.Bool() && !inList(labels, "user") {
				ren["who"] = "user"
			}
			if len(labels)+len(ren) > 0 {
				return stLogfmtLabels(labels, ren, d.pairsOf), true
			}
		}
		return stLogfmtAll(d.pairsOf), true
	case "access":
		if r.Bool() {
			return stPattern(accessPattern, d.accessOf), true
		}
		return stRegexp(accessRegexp), true
	case "packed":
		return stUnpack(d.packedOf), true
	}
	return Stage{}, false
}

// genLogQuery draws a log query whose stages fit the dataset.
func genLogQuery(r *vk.RNG, d *Dataset, o genOpts, unknown, undecided *int) LogQ {
	q := LogQ{Sel: genSelMatchers(r, r.Intn(3))}
	n := r.Range(0, o.MaxStages)
	parsed := false
	if n > 0 && r.Bool() {
		// typical shape: parse first, then filter on the extracted fields
		if st, ok := genParserStage(r, d); ok {
			q.Stages = append(q.Stages, st)
			parsed = true
			n--
		}
	}
	for i := 0; i < n; i++ {
		switch k := r.Intn(10); {
		case k < 3:
			q.Stages = append(q.Stages, genLineFilter(r, d, undecided))
		case k < 5:
			if st, ok := genParserStage(r, d); ok && (!parsed || r.Chance(1, 4)) {
				q.Stages = append(q.Stages, st)
				parsed = true
			} else {
				q.Stages = append(q.Stages, genLineFilter(r, d, undecided))
			}
		case k < 9:
			q.Stages = append(q.Stages, stLabelFilter(genPred(r, d, 2), unknown))
		default:
			if o.Distinct {
				q.Stages = append(q.Stages, stDistinct(vk.Pick(r, append([]string{"app", "pod", "env"}, d.Fields...))))
			} else {
				q.Stages = append(q.Stages, stLabelFilter(genPred(r, d, 1), unknown))
			}
		}
	}
	return q
}

// flattenResult returns the entries of a streams result keyed by timestamp (must be unique).
type flatEntry struct {
	Line   string
	Labels map[string]string
}

func flattenStreams(res Result) (map[int64]flatEntry, string) {
	out := map[int64]flatEntry{}
	for _, s := range res.Streams {
		for _, e := range s.Entries {
			if _, dup := out[e.TS]; dup {
				return nil, "record with timestamp " + strconv.FormatInt(e.TS, 10) + " returned twice"
			}
			out[e.TS] = flatEntry{Line: e.Line, Labels: s.Labels}
		}
	}
	return out, ""
}

// compareEntries compares the engine's entries with the model's. baseLabels: labels to compare
// exactly when the model left the entry Loose.
func compareEntries(model []Ent, got map[int64]flatEntry, compareLabels bool) string {
	if len(got) != len(model) {
		mts := map[int64]bool{}
		for _, e := range model {
			mts[e.TS] = true
		}
		for ts, g := range got {
			if !mts[ts] {
				return fmt.Sprintf("returned %d records, expected %d; e.g. unexpected record ts=%d line=%q", len(got), len(model), ts, g.Line)
			}
		}
		for _, e := range model {
			if _, ok := got[e.TS]; !ok {
				return fmt.Sprintf("returned %d records, expected %d; e.g. missing record ts=%d line=%q", len(got), len(model), e.TS, e.Line)
			}
		}
	}
	for _, e := range model {
		g, ok := got[e.TS]
		if !ok {
			return fmt.Sprintf("matching record ts=%d line=%q missing from the result", e.TS, e.Line)
		}
		if g.Line != e.Line && !e.LineAny {
			return fmt.Sprintf("record ts=%d: line %q, expected %q", e.TS, g.Line, e.Line)
		}
		if !compareLabels {
			continue
		}
		_, hasErr := g.Labels["__error__"]
		if e.Err == errNone && hasErr {
			return fmt.Sprintf("record ts=%d line=%q: unexpected __error__=%q (%s)", e.TS, e.Line, g.Labels["__error__"], g.Labels["__error_details__"])
		}
		if e.Err == errYes && !hasErr {
			return fmt.Sprintf("record ts=%d line=%q: expected __error__ to be set", e.TS, e.Line)
		}
		for k, v := range e.L {
			if k == "__error__" || k == "__error_details__" {
				continue
			}
			if gv, ok := g.Labels[k]; !ok || gv != v {
				if e.Loose {
					// an unspecified stage outcome may legitimately have overwritten it
					continue
				}
				return fmt.Sprintf("record ts=%d line=%q: label %s=%q (present=%v), expected %q", e.TS, e.Line, k, gv, ok, v)
			}
		}
		if !e.Loose {
			for k, v := range g.Labels {
				if k == "__error__" || k == "__error_details__" {
					continue
				}
				if _, ok := e.L[k]; !ok {
					return fmt.Sprintf("record ts=%d line=%q: unexpected label %s=%q", e.TS, e.Line, k, v)
				}
			}
		}
	}
	return ""
}

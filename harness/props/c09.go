//go:build verif

package props

import (
	"strings"
	"sort"
	"fmt"
	"time"

	"github.com/tdakkota/docker-logql/internal/logql"
	"github.com/tdakkota/docker-logql/internal/zzverif/vk"
)

func init() {
	register("C09", "exploration", 8*time.Minute, 60*time.Minute, runC09)
}

var (
	c09Ranges  = []time.Duration{time.Second, 2 * time.Second, 3 * time.Second, 5 * time.Second, 10 * time.Second, 500 * time.Millisecond, 1500 * time.Millisecond, 45 * time.Second, 2 * time.Minute,
		3200 * 7 * 24 * time.Hour /* the window starts before 1970 */}
	c09Offsets = []time.Duration{0, 0, 0, time.Second, 2 * time.Second, 5 * time.Second, 500 * time.Millisecond}
	c09Steps   = []time.Duration{100 * time.Millisecond, 200 * time.Millisecond, 300 * time.Millisecond, 700 * time.Millisecond, 500 * time.Millisecond, time.Second, 2 * time.Second, 3 * time.Second, 5 * time.Second, 10 * time.Second}
	c09Fns     = []string{"count_over_time", "rate", "bytes_over_time", "bytes_rate", "sum_over_time", "avg_over_time", "min_over_time", "max_over_time",
		"stddev_over_time", "stdvar_over_time", "quantile_over_time", "first_over_time", "last_over_time", "rate/unwrap"}
)

// genWindowRecs: samples on a 500 ms lattice (so they land exactly on window edges), equal
// timestamps, gaps longer than the range; every sample carries a unique power-of-two value v.
func genWindowRecs(r *vk.RNG, n int) []Rec {
	var recs []Rec
	slot := 0
	for i := 0; i < n; i++ {
		switch r.Intn(6) {
		case 0: // tie
		case 1:
			slot += r.Range(8, 30) // gap
		default:
			slot += r.Range(1, 4)
		}
		ts := metricT0 + int64(slot)*5e8
		line := fmt.Sprintf("v=%d d=%s s=%s", int64(1)<<uint(i), pickKeyed(r, durValues, nil, 0), pickKeyed(r, bytValues, nil, 0))
		if r.Chance(1, 5) {
			line += " pad=" + vk.Pick(r, []string{"x", "yyyy", "zzzzzzzz"})
		}
		recs = append(recs, Rec{TS: ts, Line: line, Labels: map[string]string{"job": "j", "app": vk.Pick(r, []string{"a", "b"}), "g": vk.Pick(r, []string{"x", "y", "z"})}})
	}
	return recs
}

func genRangeQ(r *vk.RNG, msg bool) *RangeQ {
	fn := vk.Pick(r, c09Fns)
	q := &RangeQ{Log: LogQ{Sel: []selMatcher{{Label: "job", Op: logql.OpEq, OpS: "=", Value: "j"}}}, Range: vk.Pick(r, c09Ranges), Offset: vk.Pick(r, c09Offsets), RangeFirst: false}
	if fn == "rate/unwrap" {
		q.Fn = "rate"
		q.Unwrap = "v"
	} else {
		q.Fn = fn
	}
	if fn == "quantile_over_time" {
		q.Phi = vk.Pick(r, []float64{0, 0.25, 0.5, 0.9, 1})
	}
	pairsOf := func(line string) ([][2]string, bool) {
		var out [][2]string
		for _, f := range splitFields(line) {
			out = append(out, f)
		}
		return out, true
	}
	if q.needsUnwrap() {
		q.Log.Stages = append(q.Log.Stages, stLogfmtAll(pairsOf))
		if q.Unwrap == "" {
			switch r.Intn(5) {
			case 0:
				q.Unwrap, q.Conv = "d", vk.Pick(r, []string{"duration", "duration_seconds"})
			case 1:
				q.Unwrap, q.Conv = "s", "bytes"
			default:
				q.Unwrap = "v"
			}
		}
		if r.Chance(1, 4) {
			// filters after the unwrap expression decide which samples are taken
			for i := 0; i < r.Range(1, 2); i++ {
				op := vk.Pick(r, allStrOps)
				lbl := vk.Pick(r, []string{"g", "app", "pad", "nosuch"})
				val := vk.Pick(r, []string{"x", "y", "a", "", "yyyy"})
				if op == logql.OpRe || op == logql.OpNotRe {
					val = vk.Pick(r, []string{"x|y", "a", ".*", ".+", "z?"})
				}
				q.UnwrapFilters = append(q.UnwrapFilters, selMatcher{Label: lbl, Op: op, OpS: opText(op), Value: val})
			}
		}
		switch q.Fn {
		case "avg_over_time", "min_over_time", "max_over_time", "stddev_over_time", "stdvar_over_time", "quantile_over_time", "first_over_time", "last_over_time":
			if r.Chance(1, 2) {
				q.Grouped = true
				if r.Bool() {
					// (an empty list is legal: `by ()` keeps no label, all samples form one series)
					q.Group = vk.Pick(r, [][]string{{"app"}, {"g"}, {"app", "g"}, {"job"}, {"nosuch", "app"}, {}, {"nosuch"}})
				} else {
					q.Without = true
					q.Group = []string{"v", "d", "s", "msg", "pad"}
					if r.Bool() {
						q.Group = append(q.Group, "g")
					}
				}
			}
		}
	} else if r.Chance(1, 3) {
		q.RangeFirst = true
	}
	if msg && !q.RangeFirst && r.Chance(1, 2) {
		q.Log.Stages = append(q.Log.Stages, stDrop([]nameOrMatcher{{Name: "msg"}}))
	}
	return q
}

func splitFields(line string) [][2]string {
	var out [][2]string
	start := 0
	for i := 0; i <= len(line); i++ {
		if i == len(line) || line[i] == ' ' {
			f := line[start:i]
			for j := 0; j < len(f); j++ {
				if f[j] == '=' {
					out = append(out, [2]string{f[:j], f[j+1:]})
					break
				}
			}
			start = i + 1
		}
	}
	return out
}

func runC09(r *vk.Run) {
	r.SetRule("sample sets on a 500 ms lattice (samples exactly on both window edges, equal timestamps, gaps longer than the range; each sample has a unique power-of-two unwrapped value) x all range functions " +
		"(count, rate, bytes, bytes_rate and sum/avg/min/max/stddev/stdvar/quantile/first/last/rate over unwrapped values with bytes()/duration() conversions, optional by/without) x ranges, offsets, starts, ends and steps from ms to 10 s with step <, =, > range; " +
		"storage sometimes returns a superset of the requested interval. Oracle 1: window model [T-o-r, T-o], stamped T, empty window => no point. Oracle 2 (model-free): two grids sharing T and the instant query at T agree at T. " +
		"non-trivial = distinct (data, query, grid) with >=2 evaluation times and a sample on a window edge or retained across steps.")
	r.Assume("count/first/last/min/max compared exactly, the rest within 1e-9 relative", "unparsable unwrap values are not generated")
	env0, err := calibrateMetric()
	if err != nil {
		r.Inconclusive(err.Error())
		return
	}
	r.SetExtra("calibration", map[string]any{"msg_label": env0.Msg, "unwrap_keeps_label": env0.UnwrapKeeps})

	r.Phase("windows", r.N(6000, 1200000), func(c *vk.Case) {
		rng := c.Rng
		recs := genWindowRecs(rng, rng.Range(3, 24))
		env := &MEnv{Recs: recs, Msg: env0.Msg, UnwrapKeeps: env0.UnwrapKeeps, CmpFalse: env0.CmpFalse, CmpFalseBool: env0.CmpFalseBool}
		q := genRangeQ(rng, env.Msg)
		text := q.Text()
		last := recs[len(recs)-1].TS
		span := (last-metricT0)/5e8 + 4
		// grids
		type grid struct {
			p    EvalP
			name string
		}
		var grids []grid
		mk := func() EvalP {
			step := vk.Pick(rng, c09Steps)
			start := metricT0 + rng.I64n(span)*5e8
			k := int64(rng.Range(1, 8))
			end := start + k*int64(step)
			if rng.Chance(1, 4) {
				end += int64(step) / 2 // end not on the grid
			}
			// the entry limit belongs to log queries; whatever value the command line passed, a metric
			// query aggregates every sample of its windows
			return EvalP{Start: start, End: end, Step: step, Limit: vk.Pick(rng, []int{0, -1, 1, 3, 1000, 2})}
		}
		main := mk()
		grids = append(grids, grid{main, "main"})
		// a second grid through one of main's evaluation times, and the instant query there
		times := gridTimes(main)
		shared := vk.Pick(rng, times)
		step2 := vk.Pick(rng, c09Steps)
		back := int64(rng.Intn(4))
		g2 := EvalP{Start: shared - back*int64(step2), End: shared + int64(rng.Intn(3))*int64(step2), Step: step2, Limit: vk.Pick(rng, []int{0, -1, 2, 5})}
		grids = append(grids, grid{g2, "shifted"}, grid{EvalP{Start: shared, End: shared, Limit: vk.Pick(rng, []int{0, -1, 1, 4})}, "instant"})
		valuesAtShared := map[string]map[string]float64{}
		edge := false
		for _, g := range grids {
			mq := &MemQuerier{Recs: recs, ErrAfter: -1, Superset: rng.Chance(1, 4)}
			res, err := evalQuery(mq, text, g.p)
			c.Eval(1)
			det := func() map[string]any {
				return map[string]any{"query": text, "records": recs, "grid": g.name, "params": g.p, "grid_times": gridText(gridTimes(g.p)), "shared_T": tsText(shared), "result": res, "superset_storage": mq.Superset}
			}
			if err != nil {
				c.Fail("", "query failed: "+text+": "+err.Error(), det())
				return
			}
			if m := compareMetric(q, env, g.p, res, 1e-9); m != "" {
				key := ""
				c.Fail(key, fmt.Sprintf("%s [%s grid %s]: %s", text, g.name, gridText(gridTimes(g.p)), m), det())
				return
			}
			c.Count("compared_points", len(gridTimes(g.p)))
			at, _ := resultAt(res)
			vals := map[string]float64{}
			for k, s := range at[shared/1e6] {
				vals[k] = s.V
			}
			valuesAtShared[g.name] = vals
		}
		// model-free grid independence at the shared time
		for _, other := range []string{"shifted", "instant"} {
			a, b := valuesAtShared["main"], valuesAtShared[other]
			same := len(a) == len(b)
			for k, v := range a {
				if w, ok := b[k]; !ok || !vk_almost(v, w, 1e-9) {
					same = false
				}
			}
			if !same {
				c.Fail("", fmt.Sprintf("%s: value at T=%s depends on the grid: main=%v %s=%v", text, tsText(shared), a, other, b), map[string]any{"query": text, "records": recs, "main": main, "other": other, "shared_T": tsText(shared)})
				return
			}
			c.Count("shared_T_comparisons", 1)
		}
		// coverage accounting
		lo := func(T int64) int64 { return T - int64(q.Offset) - int64(q.Range) }
		hi := func(T int64) int64 { return T - int64(q.Offset) }
		for _, T := range times {
			for _, rec := range recs {
				if rec.TS == lo(T) || rec.TS == hi(T) {
					edge = true
					c.Count("edge_samples", 1)
				}
			}
		}
		rel := "step=range"
		if main.Step < q.Range {
			rel = "step<range"
		} else if main.Step > q.Range {
			rel = "step>range"
		}
		c.Seen("step_vs_range", rel)
		c.Seen("shapes", q.Shape())
		if len(times) >= 2 && (edge || main.Step < q.Range) {
			c.Nontrivial(fmt.Sprintf("%d|%s|%v", c.Idx, text, main))
		}
		if c.Idx < 5 {
			c.Sample("windows", map[string]any{"query": text, "records": len(recs), "main_grid": gridText(times), "shared_T": tsText(shared)})
		}
	})
	// Over the Docker storage: asking the daemon for the window must lose nothing. The same query is
	// evaluated against a fake daemon that honours since/until the way dockerd does (seconds with an
	// optional decimal fraction, inclusive) and against one that serves the whole log; the results
	// must be equal. Window ends (T_last - offset) are whole seconds, because the request's until is
	// specified as the end truncated to a second (C02); starts carry sub-second parts of every
	// magnitude (.05, .5, .005 ...).
	r.Phase("daemon", r.N(600, 100000), func(c *vk.Case) {
		rng := c.Rng
		// the samples' dates are data: fixtures dated after the present of whoever runs the query (a daemon whose
		// clock runs ahead, a log written for 2100) are windows like any other
		metricT0 := vk.Pick(rng, []int64{metricT0, metricT0, 4102444800e9, 7258118400e9})
		if metricT0 > 4e18 {
			c.Count("daemon_cases_dated_2100_or_later", 1)
		}
		cs := CSpec{ID: "id0", Name: "/c0", Image: "img", State: "running", Labels: map[string]string{}}
		n := rng.Range(10, 60)
		for i := 0; i < n; i++ {
			ts := metricT0 + int64(rng.Intn(400))*5e7 // 50 ms lattice over 20 s
			cs.Frames = append(cs.Frames, Frame{Type: 1, TS: ts, Body: fmt.Sprintf("v=%d i=%d", rng.Intn(9)+1, i)})
		}
		sort.SliceStable(cs.Frames, func(i, j int) bool { return cs.Frames[i].TS < cs.Frames[j].TS })
		inv := []CSpec{cs}
		rg := vk.Pick(rng, []time.Duration{time.Second, 2 * time.Second, 950 * time.Millisecond, 1500 * time.Millisecond, 5 * time.Second})
		off := vk.Pick(rng, []time.Duration{0, 0, time.Second, 2 * time.Second})
		frac := vk.Pick(rng, []int64{0, 50e6, 5e6, 500e6, 950e6, 1e6, 99e6, 100e6, 123456789, 7})
		start := metricT0 + int64(rng.Range(2, 12))*1e9 + frac
		step := vk.Pick(rng, []time.Duration{time.Second, 2 * time.Second, 500 * time.Millisecond})
		end := (start/1e9 + int64(rng.Range(1, 6))) * 1e9 // whole second, not necessarily on the grid
		offTxt := ""
		if off > 0 {
			offTxt = " offset " + durText(off)
		}
		fn := vk.Pick(rng, []string{"count_over_time(%s[%s]%s)", "sum by (container) (count_over_time(%s[%s]%s))", "sum(sum_over_time(%s | logfmt | unwrap v [%s]%s))", "rate(%s[%s]%s)"})
		q := fmt.Sprintf(fn, `{container="c0"} | drop msg`, durText(rg), offTxt)
		if strings.Contains(fn, "unwrap") {
			q = fmt.Sprintf(fn, `{container="c0"}`, durText(rg), offTxt)
		}
		p := EvalP{Start: start, End: end, Step: step}
		if rng.Chance(1, 5) {
			p = EvalP{Start: end, End: end} // instant query on a whole second
		}
		run := func(filter bool) (string, error) {
			fd := newFakeDocker(inv)
			fd.FilterByTime = filter
			res, err := evalQuery(dockerQuerier(fd), q, p)
			c.Eval(1)
			if err != nil {
				return "", err
			}
			return res.Canonical(), nil
		}
		all, err1 := run(false)
		win, err2 := run(true)
		det := map[string]any{"query": q, "params": p, "inventory": inv, "whole_log": all, "daemon_window": win}
		if err1 != nil || err2 != nil {
			c.Fail("", fmt.Sprintf("query %s failed: %v / %v", q, err1, err2), det)
			return
		}
		if all != win {
			c.Fail("", fmt.Sprintf("%s (start %s): result over a daemon that honours since/until differs from the result over the whole log: samples of some window were never requested", q, tsText(start)), det)
			return
		}
		c.Count("daemon_window_comparisons", 1)
		if frac != 0 && len(all) > 2 {
			c.Nontrivial(fmt.Sprintf("daemon|%d|%s", c.Idx, q))
		}
	})
	r.Require("daemon_window_comparisons", 300)
	r.Require("daemon_cases_dated_2100_or_later", 100)
	// several containers on the Docker storage, the first-listed one starting LATER than the others:
	// per container, count_over_time at T is the number of its records in [T-r, T], recounted from the
	// frames (the merge of the containers' streams feeds the windows in time order)
	r.Phase("containers", r.N(400, 60000), func(c *vk.Case) {
		rng := c.Rng
		metricT0 := vk.Pick(rng, []int64{metricT0, metricT0, 4102444800e9, 7258118400e9})
		n := rng.Range(2, 4)
		var inv []CSpec
		for i := 0; i < n; i++ {
			cs := CSpec{ID: fmt.Sprintf("id%d", i), Name: fmt.Sprintf("/c%d", i), Image: "img", State: "running", Labels: map[string]string{}}
			first := int64(rng.Intn(6))
			if i == 0 {
				first = int64(rng.Range(5, 9)) // the first-listed container is the late one
			}
			for j := 0; j < rng.Range(1, 6); j++ {
				ts := metricT0 + (first+int64(j))*1e9 + int64(rng.Intn(900))*1e6
				if rng.Chance(1, 3) {
					ts = metricT0 + (first+int64(j))*1e9 // exactly on a grid time: the right edge of its window
				}
				if j > 0 && rng.Chance(1, 3) {
					ts = cs.Frames[j-1].TS // a burst: two writes (stdout, stderr) at one instant are two records
				}
				cs.Frames = append(cs.Frames, Frame{Type: byte(1 + rng.Intn(2)), TS: ts, Body: vk.Pick(rng, []string{"tick", "tick\n", "GET /healthz 200"})})
			}
			inv = append(inv, cs)
		}
		rg := int64(rng.Range(1, 4)) * 1e9
		q := fmt.Sprintf(`sum by (container) (count_over_time({container=~"c.+"}[%ds]))`, rg/1e9)
		start := metricT0 + int64(rng.Range(1, 4))*1e9
		p := EvalP{Start: start, End: start + int64(rng.Range(3, 10))*1e9, Step: time.Duration(rng.Range(1, 2)) * time.Second}
		fd := newFakeDocker(inv)
		fd.FilterByTime = rng.Bool() // a daemon that serves exactly the requested window, or the whole log
		res, err := evalQuery(dockerQuerier(fd), q, p)
		c.Eval(1)
		det := map[string]any{"query": q, "params": p, "inventory": inv, "result": res, "daemon_honours_window": fd.FilterByTime}
		if err != nil {
			c.Fail("", "query failed: "+q+": "+err.Error(), det)
			return
		}
		at, dup := resultAt(res)
		if dup != "" {
			c.Fail("", q+": "+dup, det)
			return
		}
		for _, T := range gridTimes(p) {
			for _, cs := range inv {
				want := 0
				for _, f := range cs.Frames {
					if f.TS >= T-rg && f.TS <= T {
						want++
					}
				}
				name := strings.TrimPrefix(cs.Name, "/")
				got, ok := at[T/1e6][labelKey(map[string]string{"container": name})]
				if want == 0 && !ok {
					continue
				}
				if !ok || got.V != float64(want) {
					c.Fail("", fmt.Sprintf("%s: T=%s container %s: %v (present=%v), its log has %d records in the window", q, tsText(T), name, got.V, ok, want), det)
					return
				}
				c.Count("container_window_points", 1)
			}
		}
		c.Nontrivial(fmt.Sprintf("containers|%d", c.Idx))
	})
	r.Require("container_window_points", 1000)

	// window edges to the nanosecond: evaluation times with a sub-millisecond part (results are shown in
	// milliseconds, windows are not), samples exactly on, one nanosecond inside and one outside both edges,
	// and the instant 1970-01-01T00:00:00Z itself, which is a timestamp like any other
	r.Phase("fineedges", r.N(400, 60000), func(c *vk.Case) {
		rng := c.Rng
		base := vk.Pick(rng, []int64{0, 0, metricT0})
		d := vk.Pick(rng, []int64{0, 1, 500000, 999999, 250})
		rg := int64(rng.Range(1, 2)) * 1e9
		start := base + int64(rng.Range(1, 3))*1e9 + d
		if base == 0 && rng.Bool() {
			start = d // the grid starts at the epoch itself
		}
		steps := rng.Range(2, 5)
		p := EvalP{Start: start, End: start + int64(steps)*1e9, Step: time.Second}
		var recs []Rec
		seen := map[int64]bool{}
		add := func(ts int64) {
			if ts < 0 || seen[ts] {
				return
			}
			seen[ts] = true
			recs = append(recs, Rec{TS: ts, Line: "tick", Labels: map[string]string{"job": "j"}})
		}
		if base == 0 {
			add(0)
		}
		for k := -2; k <= steps; k++ {
			edge := start + int64(k)*1e9
			for _, off := range []int64{0, -1, 1, -d, -d - 1, 1 - d} {
				if rng.Chance(1, 3) {
					add(edge + off)
				}
			}
		}
		sortRecs(recs)
		q := fmt.Sprintf(`count_over_time({job="j"} | drop msg [%ds])`, rg/1e9)
		res, err := evalQuery(&MemQuerier{Recs: recs, ErrAfter: -1, Superset: rng.Bool()}, q, p)
		c.Eval(1)
		det := map[string]any{"query": q, "params": p, "sample_timestamps": keysOfSeen(seen), "result": res}
		if err != nil {
			c.Fail("", "query failed: "+q+": "+err.Error(), det)
			return
		}
		at, dup := resultAt(res)
		if dup != "" {
			c.Fail("", q+": "+dup, det)
			return
		}
		key := labelKey(map[string]string{"job": "j"})
		edgeHits := 0
		for _, T := range gridTimes(p) {
			want := 0
			for ts := range seen {
				if ts >= T-rg && ts <= T {
					want++
					if ts == T || ts == T-rg || ts == 0 {
						edgeHits++
					}
				}
			}
			check := func(kind string, got VS, ok bool) bool {
				if want == 0 && !ok {
					return true
				}
				if !ok || got.V != float64(want) {
					c.Fail("", fmt.Sprintf("%s [%s]: T=%dns: %v (present=%v), %d samples lie in [T-%ds, T]", q, kind, T, got.V, ok, want, rg/1e9), det)
					return false
				}
				return true
			}
			got, ok := at[floorDiv(T, 1e6)][key]
			if !check("range", got, ok) {
				return
			}
			ires, err := evalQuery(&MemQuerier{Recs: recs, ErrAfter: -1}, q, EvalP{Start: T, End: T})
			c.Eval(1)
			if err != nil {
				c.Fail("", "instant query failed: "+err.Error(), det)
				return
			}
			iat, _ := resultAt(ires)
			got, ok = iat[floorDiv(T, 1e6)][key]
			if !check("instant", got, ok) {
				return
			}
			c.Count("fine_edge_points", 1)
		}
		if edgeHits > 0 {
			c.Count("fine_edge_cases_with_samples_on_an_edge", 1)
			c.Nontrivial(fmt.Sprintf("fineedges|%d", c.Idx))
		}
	})
	r.Require("fine_edge_cases_with_samples_on_an_edge", 150)

	// grids longer than any "max data points" default: the requested grid is the grid
	r.Phase("longgrid", r.N(2, 12), func(c *vk.Case) {
		rng := c.Rng
		span := int64(rng.Range(11500, 14000))
		step := time.Second
		at := []int64{int64(rng.Range(1, 50)), span / 2, span - int64(rng.Range(1, 50))}
		var recs []Rec
		for i, s := range at {
			recs = append(recs, Rec{TS: metricT0 + s*1e9 - 2e8, Line: fmt.Sprintf("tick %d", i), Labels: map[string]string{"job": "j"}})
		}
		q := `count_over_time({job="j"} | drop msg [1s])`
		p := EvalP{Start: metricT0, End: metricT0 + span*1e9, Step: step}
		res, err := evalQuery(&MemQuerier{Recs: recs, ErrAfter: -1}, q, p)
		c.Eval(1)
		det := map[string]any{"query": q, "params": p, "records": recs, "result": res}
		if err != nil {
			c.Fail("", "query failed: "+err.Error(), det)
			return
		}
		atRes, dup := resultAt(res)
		if dup != "" {
			c.Fail("", dup, det)
			return
		}
		want := map[int64]bool{}
		for _, s := range at {
			want[(metricT0+s*1e9)/1e6] = true
		}
		for T := range atRes {
			if !want[T] {
				c.Fail("", fmt.Sprintf("%s over %d steps of 1s: a point at t=%dms, which is not a grid time holding a sample", q, span, T-metricT0/1e6), det)
				return
			}
		}
		for T := range want {
			if v, ok := atRes[T][labelKey(map[string]string{"job": "j"})]; !ok || v.V != 1 {
				c.Fail("", fmt.Sprintf("%s over %d steps of 1s: grid time t=%dms holds one sample but reports %v (present=%v)", q, span, T-metricT0/1e6, v.V, ok), det)
				return
			}
		}
		c.Count("long_grid_evaluations", 1)
		c.Nontrivial(fmt.Sprintf("longgrid|%d", c.Idx))
	})
	r.Require("long_grid_evaluations", 2)

	r.Require("compared_points", 5000)
	r.Require("edge_samples", 1000)
	r.Require("shared_T_comparisons", 2000)
	phaseFlaky(r, "C09")
	r.Require("distinct:step_vs_range", 3)
}

func keysOfSeen(m map[int64]bool) []int64 {
	out := make([]int64, 0, len(m))
	for k := range m {
		out = append(out, k)
	}
	sort.Slice(out, func(i, j int) bool { return out[i] < out[j] })
	return out
}

func floorDiv(a, b int64) int64 {
	q := a / b
	if a%b != 0 && (a < 0) != (b < 0) {
		q--
	}
	return q
}

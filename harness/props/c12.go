//go:build verif

package props

import (
	"fmt"
	"math"
	"time"

	"github.com/tdakkota/docker-logql/internal/logql"
	"github.com/tdakkota/docker-logql/internal/zzverif/vk"
)

func init() {
	register("C12", "exploration", 8*time.Minute, 60*time.Minute, runC12)
}

var c12Ops = []string{"+", "-", "*", "/", "%", "^", "==", "!=", ">", ">=", "<", "<="}
var c12SetOps = []string{"and", "or", "unless"}
var c12Scalars = []float64{0, -2, 0.5, 3, 1, 2, 10, -0.5, 100, 12, 644,
	// fractions without an exact binary form: x % 0.1 is the remainder of the division by the float64 nearest to 0.1
	0.1, 0.3, 0.7, -0.3, 1.1,
	// next to values the series take, but not equal to them: a comparison is exact
	3.0000000002, 2.9999999999, 1.0000000001, 10.000000001, 4.9999999999, 7.0000000003, -2.0000000001}

// genBinRecs: records tagged side=l|r|both, series label a (and sometimes b); one sample per
// (side-visible series, step window); values include 0, negatives and fractions.
func genBinRecs(r *vk.RNG, steps int, mode string) []Rec {
	var recs []Rec
	for s := 0; s < steps; s++ {
		used := map[string]bool{}
		n := r.Range(0, 7)
		for i := 0; i < n; i++ {
			side := vk.Pick(r, []string{"l", "r", "both"})
			switch mode {
			case "disjoint":
				side = vk.Pick(r, []string{"l", "r"})
			case "empty-right":
				side = "l"
			case "empty-left":
				side = "r"
			}
			a := vk.Pick(r, []string{"x", "y", "z", "w"})
			if mode == "disjoint" {
				if side == "l" {
					a = vk.Pick(r, []string{"x", "y"})
				} else {
					a = vk.Pick(r, []string{"z", "w"})
				}
			}
			l := map[string]string{"job": "j", "side": side, "a": a}
			if r.Chance(1, 4) {
				l["b"] = vk.Pick(r, []string{"p", "q"})
			}
			if mode == "twins" {
				// different label sets that read the same when names and values are joined without
				// separators: a=xb,b=y and a=x,b=by are both "axbby"
				l["a"] = vk.Pick(r, []string{"x", "xb"})
				l["b"] = vk.Pick(r, []string{"y", "by"})
				a = l["a"]
			}
			// at most one sample per visible series per side and window
			kl, kr := "l|"+a+"|"+l["b"], "r|"+a+"|"+l["b"]
			if (side != "r" && used[kl]) || (side != "l" && used[kr]) {
				continue
			}
			if side != "r" {
				used[kl] = true
			}
			if side != "l" {
				used[kr] = true
			}
			v := vk.Pick(r, []string{"0", "1", "2", "3", "5", "7", "-3", "0.5", "1.5", "10", "-0.25", "4", "0.3", "0.7", "2.1", "6", "9"})
			ts := metricT0 + int64(s)*4e9 + 5e8 + int64(r.Intn(3000))*1e6
			recs = append(recs, Rec{TS: ts, Line: "v=" + v, Labels: l})
		}
	}
	sortRecs(recs)
	return recs
}

func c12Leaf(sideRe string) *RangeQ {
	pairsOf := func(line string) ([][2]string, bool) { return splitFields(line), true }
	return &RangeQ{
		Log: LogQ{Sel: []selMatcher{{Label: "job", Op: logql.OpEq, OpS: "=", Value: "j"}, {Label: "side", Op: logql.OpRe, OpS: "=~", Value: sideRe}},
			Stages: []Stage{stLogfmtAll(pairsOf)}},
		Fn: "max_over_time", Range: 4 * time.Second, Unwrap: "v",
		Grouped: true, Group: []string{"a", "b"},
	}
}

// compareComparison implements "1 exactly where it holds": a holding series must be present with value 1,
// a non-holding one absent or 0, nothing else may appear.
func compareComparison(b *BinOp, env *MEnv, p EvalP, res Result) string {
	at, dup := resultAt(res)
	if dup != "" {
		return dup
	}
	zero := *env
	zero.CmpFalse, zero.CmpFalseBool = "zero", "zero"
	zero.cache = nil
	onGrid := map[int64]bool{}
	for _, T := range gridTimes(p) {
		onGrid[T/1e6] = true
		want := b.Eval(&zero, T)
		got := at[T/1e6]
		for k, w := range want.M {
			g, ok := got[k]
			switch {
			case w.V == 1 && (!ok || g.V != 1):
				return fmt.Sprintf("T=%s: comparison holds for %s but result has %v (present=%v)", tsText(T), k, g.V, ok)
			case w.V == 0 && ok && g.V != 0:
				return fmt.Sprintf("T=%s: comparison does not hold for %s but result reports %v", tsText(T), k, g.V)
			}
		}
		for k, g := range got {
			if _, ok := want.M[k]; !ok {
				return fmt.Sprintf("T=%s: unexpected series %s = %v", tsText(T), k, g.V)
			}
		}
	}
	for tms := range at {
		if !onGrid[tms] {
			return fmt.Sprintf("point stamped %dms is not on the grid", tms)
		}
	}
	return ""
}

func runC12(r *vk.Run) {
	r.SetRule("all 12 arithmetic/comparison operators x {vector op literal, literal op vector, vector op vector} (comparisons with and without bool) and and/or/unless between vectors; the two sides are max_over_time(.. | unwrap v [4s]) by (a,b) over differently selected records, " +
		"made overlapping / disjoint / empty-left / empty-right by construction; values include 0 (x/0, x%0), negatives and fractions; scalars {0,-2,0.5,3,1,2,10,-0.5,100}; range queries of 3..6 steps and instant queries; phase vectorfn: vector(N) as operand, alone or through or/unless, over 3..6 steps. Oracle: pointwise model; for comparisons: 1 exactly where it holds, otherwise absent or 0. " +
		"non-trivial = distinct (data, expression) with >=1 matched series; exhaustive over operator x operand-shape combinations.")
	r.Assume("vector matching is on the full label set (modifiers on/ignoring/group_* are rejected by the implementation as unsupported)")
	r.SetExhaustive(true)
	env0, err := calibrateMetric()
	if err != nil {
		r.Inconclusive(err.Error())
		return
	}
	r.SetExtra("calibration", map[string]any{"cmp_false": env0.CmpFalse, "cmp_false_bool": env0.CmpFalseBool})

	type combo struct {
		op    string
		shape string // vl lv vv
		bool_ bool
	}
	var combos []combo
	for _, op := range c12Ops {
		for _, sh := range []string{"vl", "lv", "vv"} {
			combos = append(combos, combo{op, sh, false})
			if isCmp(op) {
				combos = append(combos, combo{op, sh, true})
			}
		}
	}
	for _, op := range c12SetOps {
		combos = append(combos, combo{op, "vv", false})
	}
	modes := []string{"overlap", "overlap", "disjoint", "empty-right", "empty-left", "twins"}

	r.Phase("pointwise", r.N(200, 30000), func(c *vk.Case) {
		rng := c.Rng
		for _, cb := range combos {
			mode := vk.Pick(rng, modes)
			steps := rng.Range(3, 6)
			recs := genBinRecs(rng, steps, mode)
			env := &MEnv{Recs: recs, Msg: env0.Msg, UnwrapKeeps: env0.UnwrapKeeps, CmpFalse: env0.CmpFalse, CmpFalseBool: env0.CmpFalseBool}
			left, right := MExpr(c12Leaf("l|both")), MExpr(c12Leaf("r|both"))
			if rng.Bool() {
				// the same grouping spelt in another order (or by naming what to remove) is the same grouping:
				// series match by their label sets
				rl := c12Leaf("r|both")
				if rng.Bool() {
					rl.Group = []string{"b", "a"}
				} else {
					rl.Without, rl.Group = true, []string{"v", "msg", "side", "job"}
				}
				right = rl
				c.Count("operands_grouped_in_different_spellings", 1)
			}
			lit := &Lit{V: vk.Pick(rng, c12Scalars)}
			if rng.Chance(1, 3) {
				lit.Pad = rng.Range(1, 2) // 010 is ten
			}
			b := &BinOp{Op: cb.op, Bool: cb.bool_}
			switch cb.shape {
			case "vl":
				b.L, b.R = left, lit
			case "lv":
				b.L, b.R = lit, right
			default:
				b.L, b.R = left, right
			}
			var expr MExpr = b
			if cb.shape == "vv" && !isCmp(cb.op) && rng.Chance(1, 4) {
				// operands that remove labels with `without`, the operation itself below an aggregation that
				// removes another one: what an outer clause removes is removed from ITS result, the operands
				// of the following steps are what they were
				lw, rw := c12Leaf("l|both"), c12Leaf("r|both")
				lw.Without, lw.Group = true, []string{"v", "msg", "side", "job"}
				rw.Without, rw.Group = true, []string{"v", "msg", "side", "job"}
				b.L, b.R = lw, rw
				expr = &VecAgg{Op: vk.Pick(rng, []string{"sum", "count"}), Grouped: true, Without: true, Group: []string{vk.Pick(rng, []string{"b", "a"})}, Inner: b} // (not max/min: x % 0 is NaN, and NaN has no rank)
				c.Count("operations_below_a_without_aggregation", 1)
			}
			text := expr.Text()
			p := EvalP{Start: metricT0 + 4e9, End: metricT0 + int64(steps)*4e9, Step: 4 * time.Second}
			if rng.Chance(1, 5) {
				T := metricT0 + int64(rng.Range(1, steps))*4e9
				p = EvalP{Start: T, End: T}
			}
			res, err := evalQuery(&MemQuerier{Recs: recs, ErrAfter: -1}, text, p)
			c.Eval(1)
			det := func() map[string]any {
				return map[string]any{"query": text, "records": recs, "params": p, "result": res, "mode": mode}
			}
			if err != nil {
				c.Fail("", "query failed: "+text+": "+err.Error(), det())
				return
			}
			var m string
			if isCmp(cb.op) {
				m = compareComparison(b, env, p, res)
			} else {
				m = compareMetric(expr, env, p, res, 1e-12)
			}
			if m != "" {
				key := ""
				c.Fail(key, text+" ["+mode+"]: "+m, det())
				return
			}
			shape := cb.op + "/" + cb.shape
			if cb.bool_ {
				shape += "/bool"
			}
			c.Seen("op_x_shape", shape)
			c.Seen("modes", mode)
			matched, nan := 0, 0
			for _, T := range gridTimes(p) {
				v := b.Eval(env, T)
				matched += len(v.M)
				for _, s := range v.M {
					if math.IsNaN(s.V) {
						nan++
					}
				}
			}
			c.Count("matched_series_points", matched)
			c.Count("nan_results", nan)
			if matched > 0 {
				c.Nontrivial(fmt.Sprintf("%d|%s|%s", c.Idx, shape, mode))
			}
			if c.Idx == 0 && (cb.op == "/" || cb.op == "unless" || cb.op == ">=") {
				c.Sample("pointwise", map[string]any{"query": text, "mode": mode, "records": len(recs)})
			}
		}
	})
	// wide vectors: 7..40 series on each side of one step (beyond the 12 elements up to which library sorts
	// are insertion sorts, beyond 8 / 16 / 32-slot tables), operators whose operands cannot be swapped
	r.Phase("wide", r.N(60, 6000), func(c *vk.Case) {
		rng := c.Rng
		ns := vk.Pick(rng, []int{7, 9, 13, 20, 33, 40})
		steps := rng.Range(2, 4)
		var recs []Rec
		for st := 0; st < steps; st++ {
			for i := 0; i < ns; i++ {
				side := vk.Pick(rng, []string{"both", "both", "both", "l", "r"})
				l := map[string]string{"job": "j", "side": side, "a": fmt.Sprintf("a%02d", i)}
				ts := metricT0 + int64(st)*4e9 + 5e8 + int64(rng.Intn(3000))*1e6
				if side == "both" {
					// the two sides see different values of the same series: two records, one per side
					ll, lr := copyMap(l), copyMap(l)
					ll["side"], lr["side"] = "l", "r"
					recs = append(recs, Rec{TS: ts, Line: fmt.Sprintf("v=%d", 10+i*3+st), Labels: ll}, Rec{TS: ts + 1000, Line: fmt.Sprintf("v=%d", 1+(i*7+st)%9), Labels: lr})
					continue
				}
				recs = append(recs, Rec{TS: ts, Line: fmt.Sprintf("v=%d", 2+i), Labels: l})
			}
		}
		sortRecs2(recs)
		env := &MEnv{Recs: recs, Msg: env0.Msg, UnwrapKeeps: env0.UnwrapKeeps, CmpFalse: env0.CmpFalse, CmpFalseBool: env0.CmpFalseBool}
		for _, op := range []string{"-", "/", "%", "^", ">", "<", ">=", "+", "unless", "and"} {
			b := &BinOp{Op: op, L: c12Leaf("l|both"), R: c12Leaf("r|both"), Bool: isCmp(op) && rng.Bool()}
			text := b.Text()
			p := EvalP{Start: metricT0 + 4e9, End: metricT0 + int64(steps)*4e9, Step: 4 * time.Second}
			res, err := evalQuery(&MemQuerier{Recs: recs, ErrAfter: -1}, text, p)
			c.Eval(1)
			det := map[string]any{"query": text, "series_per_side": ns, "params": p, "records": len(recs)}
			if err != nil {
				c.Fail("", "query failed: "+text+": "+err.Error(), det)
				return
			}
			var m string
			if isCmp(op) {
				m = compareComparison(b, env, p, res)
			} else {
				m = compareMetric(b, env, p, res, 1e-12)
			}
			if m != "" {
				det["result"] = trunc(res.Canonical(), 3000)
				c.Fail("", fmt.Sprintf("%s over %d series a side: %s", text, ns, m), det)
				return
			}
			c.Count("wide_operations", 1)
		}
		c.Max("series_per_side", int64(ns))
		c.Nontrivial(fmt.Sprintf("wide|%d", c.Idx))
	})
	r.Require("wide_operations", 300)

	// nested: x/0, x%0 (NaN) and Inf as operands of every operator
	r.Phase("nested", r.N(150, 20000), func(c *vk.Case) {
		rng := c.Rng
		steps := rng.Range(2, 4)
		recs := genBinRecs(rng, steps, vk.Pick(rng, []string{"overlap", "overlap", "disjoint"}))
		env := &MEnv{Recs: recs, Msg: env0.Msg, UnwrapKeeps: env0.UnwrapKeeps, CmpFalse: env0.CmpFalse, CmpFalseBool: env0.CmpFalseBool}
		left, right := MExpr(c12Leaf("l|both")), MExpr(c12Leaf("r|both"))
		mk := func(depth int) MExpr { return nil }
		_ = mk
		inner := func() MExpr {
			switch rng.Intn(5) {
			case 0:
				return &Paren{X: &BinOp{Op: "/", L: left, R: &Lit{V: 0}}}
			case 1:
				return &Paren{X: &BinOp{Op: "%", L: left, R: &Lit{V: 0}}}
			case 2:
				return &Paren{X: &BinOp{Op: vk.Pick(rng, []string{"/", "%"}), L: left, R: right}} // NaN where the right value is 0
			case 3:
				return &Paren{X: &BinOp{Op: "^", L: &Lit{V: 10}, R: &Paren{X: &BinOp{Op: "*", L: left, R: &Lit{V: 400}}}}} // overflow to +Inf
			default:
				return &Paren{X: &BinOp{Op: vk.Pick(rng, c12Ops[:6]), L: left, R: &Lit{V: vk.Pick(rng, c12Scalars)}}}
			}
		}
		op := vk.Pick(rng, c12Ops)
		b := &BinOp{Op: op, Bool: isCmp(op) && rng.Bool()}
		which := rng.Intn(4)
		if c.Idx%12 == 5 {
			// the remainder of a division by a fraction (a sampling interval of 0.1 s, a 0.3 weight)
			b.Op, b.Bool, which = "%", false, 4
			c.Count("remainders_by_fractions", 1)
		}
		if c.Idx%12 == 7 {
			// a product with a zero factor is not zero when the other factor is NaN or infinite
			b.Op, b.Bool, which = "*", false, 5
			c.Count("products_of_zero_and_nan_or_inf", 1)
		}
		switch which {
		case 5:
			nanOrInf := vk.Pick(rng, []MExpr{
				&Paren{X: &BinOp{Op: "/", L: left, R: &Lit{V: 0}}},
				&Paren{X: &BinOp{Op: "%", L: left, R: &Lit{V: 0}}},
				&Paren{X: &BinOp{Op: "^", L: &Lit{V: 10}, R: &Paren{X: &BinOp{Op: "*", L: left, R: &Lit{V: 400}}}}},
			})
			zero := vk.Pick(rng, []MExpr{&Lit{V: 0}, &Paren{X: &BinOp{Op: "*", L: left, R: &Lit{V: 0}}}, &Paren{X: &BinOp{Op: "-", L: left, R: left}}})
			b.L, b.R = nanOrInf, zero
			if rng.Bool() {
				b.L, b.R = zero, nanOrInf
			}
		case 4:
			b.L, b.R = left, &Lit{V: vk.Pick(rng, []float64{0.1, 0.3, 0.7, -0.3, 1.1, 0.2, 0.6})}
			if rng.Chance(1, 3) {
				b.L, b.R = &Lit{V: vk.Pick(rng, []float64{3, 7, 2.1, 0.9, 1, 10})}, &Paren{X: &BinOp{Op: "/", L: left, R: &Lit{V: 10}}}
			}
		case 0:
			b.L, b.R = inner(), &Lit{V: vk.Pick(rng, c12Scalars)}
		case 1:
			b.L, b.R = &Lit{V: vk.Pick(rng, c12Scalars)}, inner()
		case 2:
			b.L, b.R = inner(), inner()
		default:
			b.L, b.R = inner(), left
		}
		text := b.Text()
		p := EvalP{Start: metricT0 + 4e9, End: metricT0 + int64(steps)*4e9, Step: 4 * time.Second}
		res, err := evalQuery(&MemQuerier{Recs: recs, ErrAfter: -1}, text, p)
		c.Eval(1)
		det := func() map[string]any { return map[string]any{"query": text, "records": recs, "params": p, "result": res} }
		if err != nil {
			c.Fail("", "query failed: "+text+": "+err.Error(), det())
			return
		}
		var m string
		if isCmp(op) {
			m = compareComparison(b, env, p, res)
		} else {
			m = compareMetric(b, env, p, res, 1e-12)
		}
		if m != "" {
			c.Fail("", text+": "+m, det())
			return
		}
		nan := 0
		for _, T := range gridTimes(p) {
			for _, side := range []MExpr{b.L, b.R} {
				if _, isLit := side.(*Lit); isLit {
					continue
				}
				for _, s := range side.Eval(env, T).M {
					if math.IsNaN(s.V) || math.IsInf(s.V, 0) {
						nan++
					}
				}
			}
		}
		c.Count("nested_nan_or_inf_operands", nan)
		c.Count("nested_expressions", 1)
		if nan > 0 {
			c.Nontrivial(fmt.Sprintf("nested|%d|%s", c.Idx, text))
		}
	})
	// operands that do not arrive ordered by grouping key: the result of `or` (left samples followed by
	// right-only ones), of `unless`, of a nested operation; matching is by label set, not by position
	r.Phase("unordered", r.N(300, 40000), func(c *vk.Case) {
		rng := c.Rng
		steps := rng.Range(2, 5)
		recs := genBinRecs(rng, steps, vk.Pick(rng, []string{"overlap", "overlap", "disjoint", "twins"}))
		env := &MEnv{Recs: recs, Msg: env0.Msg, UnwrapKeeps: env0.UnwrapKeeps, CmpFalse: env0.CmpFalse, CmpFalseBool: env0.CmpFalseBool}
		left, right := MExpr(c12Leaf("l|both")), MExpr(c12Leaf("r|both"))
		union := func(a, b MExpr) MExpr { return &Paren{X: &BinOp{Op: "or", L: a, R: b}} }
		op := vk.Pick(rng, c12Ops)
		b := &BinOp{Op: op, Bool: isCmp(op) && rng.Bool()}
		switch rng.Intn(5) {
		case 0:
			b.L, b.R = union(left, right), right
		case 1:
			b.L, b.R = union(right, left), left
		case 2:
			b.L, b.R = union(left, right), union(right, left)
		case 3:
			b.L, b.R = union(&Paren{X: &BinOp{Op: "unless", L: right, R: left}}, left), right
		default:
			b.L, b.R = &Paren{X: &BinOp{Op: "*", L: union(left, right), R: &Lit{V: 1}}}, union(right, left)
		}
		text := b.Text()
		p := EvalP{Start: metricT0 + 4e9, End: metricT0 + int64(steps)*4e9, Step: 4 * time.Second}
		res, err := evalQuery(&MemQuerier{Recs: recs, ErrAfter: -1}, text, p)
		c.Eval(1)
		det := func() map[string]any { return map[string]any{"query": text, "records": recs, "params": p, "result": res} }
		if err != nil {
			c.Fail("", "query failed: "+text+": "+err.Error(), det())
			return
		}
		var m string
		if isCmp(op) {
			m = compareComparison(b, env, p, res)
		} else {
			m = compareMetric(b, env, p, res, 1e-12)
		}
		if m != "" {
			c.Fail("", text+": "+m, det())
			return
		}
		matched := 0
		for _, T := range gridTimes(p) {
			matched += len(b.Eval(env, T).M)
		}
		c.Count("unordered_operand_points", matched)
		if matched > 0 {
			c.Nontrivial(fmt.Sprintf("unordered|%d|%s", c.Idx, text))
		}
	})
	r.Require("unordered_operand_points", 500)

	// vector(N) as an operand: a constant series that exists at every step. Each step's result must be
	// computed from the constant, not from what an earlier step left behind.
	r.Phase("vectorfn", r.N(300, 40000), func(c *vk.Case) {
		rng := c.Rng
		steps := rng.Range(3, 6)
		recs := genBinRecs(rng, steps, vk.Pick(rng, modes))
		// sums are operands here: only values whose sums are exact in any order of addition (dyadic fractions),
		// so that `%` and the comparisons, which are not continuous, see the one value a sum has
		for i := range recs {
			switch recs[i].Line {
			case "v=0.3":
				recs[i].Line = "v=0.25"
			case "v=0.7":
				recs[i].Line = "v=0.75"
			case "v=2.1":
				recs[i].Line = "v=2.5"
			}
		}
		env := &MEnv{Recs: recs, Msg: env0.Msg, UnwrapKeeps: env0.UnwrapKeeps, CmpFalse: env0.CmpFalse, CmpFalseBool: env0.CmpFalseBool}
		left := MExpr(c12Leaf("l|both"))
		vec := func() MExpr { return &VectorFn{V: vk.Pick(rng, []float64{2, 0, 1, 3, 0.5, 10, 5})} } // vector() takes an unsigned number
		lit := func() MExpr { return &Lit{V: vk.Pick(rng, c12Scalars)} }
		op := vk.Pick(rng, c12Ops)
		b := &BinOp{Op: op, Bool: isCmp(op) && rng.Bool()}
		shape := ""
		agg := func() MExpr { return &VecAgg{Op: vk.Pick(rng, []string{"sum", "count", "max"}), Inner: left} } // one series with the empty label set
		aggBy := func() MExpr { // the empty label set reached through a grouping clause
			a := &VecAgg{Op: vk.Pick(rng, []string{"sum", "count", "min"}), Inner: left, Grouped: true, GroupFirst: rng.Bool()}
			if rng.Bool() {
				a.Group = []string{"nosuch"}
			}
			return a
		}
		switch rng.Intn(14) {
		case 12:
			// vector(N) is a vector of ONE series with the empty label set, not a number: against series that
			// carry labels it pairs with none of them
			b.L, b.R, shape = left, vec(), "X op vector"
		case 13:
			b.L, b.R, shape = vec(), left, "vector op X"
		case 10:
			b.L, b.R, shape = agg(), aggBy(), "sum(X) op sum by () (X)"
			if rng.Bool() {
				b.L, b.R = b.R, b.L
			}
		case 11:
			b = &BinOp{Op: vk.Pick(rng, []string{"or", "and", "unless"}), L: aggBy(), R: vk.Pick(rng, []MExpr{agg(), vec()})}
			op = b.Op
			shape = "sum by () (X) and/or/unless {sum(X), vector}"
		case 7:
			// the empty label set is one label set, whoever produced it
			b.L, b.R, shape = agg(), vec(), "sum(X) op vector"
		case 8:
			b.L, b.R, shape = vec(), agg(), "vector op sum(X)"
		case 9:
			b = &BinOp{Op: vk.Pick(rng, []string{"or", "and", "unless"}), L: agg(), R: vec()}
			op = b.Op
			if rng.Bool() {
				b.L, b.R = b.R, b.L
			}
			shape = "sum(X) and/or/unless vector"
		case 0:
			b.L, b.R, shape = vec(), lit(), "vector op literal"
		case 1:
			b.L, b.R, shape = lit(), vec(), "literal op vector"
		case 2:
			b.L, b.R, shape = vec(), vec(), "vector op vector"
		case 3:
			b.L, b.R, shape = &Paren{X: &BinOp{Op: "or", L: left, R: vec()}}, lit(), "(X or vector) op literal"
		case 4:
			b.L, b.R, shape = lit(), &Paren{X: &BinOp{Op: "or", L: left, R: vec()}}, "literal op (X or vector)"
		case 5:
			b.L, b.R, shape = &Paren{X: &BinOp{Op: "unless", L: vec(), R: left}}, lit(), "(vector unless X) op literal"
		default:
			b.L, b.R, shape = &Paren{X: &BinOp{Op: vk.Pick(rng, c12Ops[:6]), L: vec(), R: lit()}}, vec(), "(vector op literal) op vector"
		}
		text := b.Text()
		p := EvalP{Start: metricT0 + 4e9, End: metricT0 + int64(steps)*4e9, Step: 4 * time.Second}
		res, err := evalQuery(&MemQuerier{Recs: recs, ErrAfter: -1}, text, p)
		c.Eval(1)
		det := func() map[string]any { return map[string]any{"query": text, "records": recs, "params": p, "result": res, "shape": shape} }
		if err != nil {
			c.Fail("", "query failed: "+text+": "+err.Error(), det())
			return
		}
		var m string
		if isCmp(op) {
			m = compareComparison(b, env, p, res)
		} else {
			m = compareMetric(b, env, p, res, 1e-12)
		}
		if m != "" {
			c.Fail("", text+" ["+shape+"]: "+m, det())
			return
		}
		if shape == "sum(X) op vector" {
			// a range evaluated with step 0 is stepped every second (that is what the range aggregation on the
			// left does with it); the vector on the right has to follow, step by step
			p1 := EvalP{Start: p.Start, End: p.Start + 6e9, Step: time.Second}
			p0 := EvalP{Start: p.Start, End: p.Start + 6e9, Step: 0}
			type out struct {
				res Result
				err error
			}
			ch := make(chan out, 1)
			go func() {
				r0, e0 := evalQuery(&MemQuerier{Recs: recs, ErrAfter: -1}, text, p0)
				ch <- out{r0, e0}
			}()
			r1, e1 := evalQuery(&MemQuerier{Recs: recs, ErrAfter: -1}, text, p1)
			c.Eval(2)
			select {
			case o := <-ch:
				if (o.err == nil) != (e1 == nil) || (e1 == nil && o.res.Canonical() != r1.Canonical()) {
					d := det()
					d["step_0"], d["step_1s"] = o.res, r1
					c.Fail("", fmt.Sprintf("%s over [start, start+6s]: step 0 (err=%v) and step 1s (err=%v) give different results", text, o.err, e1), d)
					return
				}
				c.Count("zero_step_ranges_compared", 1)
			case <-time.After(30 * time.Second):
				c.Count("zero_step_range_undecided", 1) // outside the property's domain if it does not end: not judged
			}
		}
		c.Count("vectorfn_expressions", 1)
		c.Count("vectorfn_points", len(gridTimes(p)))
		c.Seen("vectorfn_shapes", shape)
		c.Nontrivial(fmt.Sprintf("vectorfn|%d|%s", c.Idx, text))
	})
	r.Require("vectorfn_points", 800)
	r.Require("distinct:vectorfn_shapes", 12)
	r.Require("nested_nan_or_inf_operands", 100)
	r.Require("distinct:op_x_shape", int64(len(combos)))
	r.Require("nan_results", 20)
	r.Require("matched_series_points", 5000)
}

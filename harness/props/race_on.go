//go:build verif && race

package props

func init() { raceEnabled = true }

//go:build verif

package props

import (
	"bufio"
	"encoding/json"
	"fmt"
	"os"
	"os/exec"
	"path/filepath"
	"regexp"
	"runtime/debug"
	"sort"
	"strconv"
	"strings"
	"sync"
	"syscall"
	"time"

	"github.com/tdakkota/docker-logql/internal/logql"
	"github.com/tdakkota/docker-logql/internal/logql/logqlengine"
	"github.com/tdakkota/docker-logql/internal/zzverif/vk"
)

func init() {
	register("C17", "exploration", 15*time.Minute, 120*time.Minute, runC17)
}

// ---- hostile data

func deepJSON(open, close string, leaf string, depth int) string {
	return strings.Repeat(open, depth) + leaf + strings.Repeat(close, depth)
}

func hostileLines(r *vk.RNG, big bool) []string {
	lines := []string{
		"", " ", "\x00", "\xff\xfe\xfd", "plain text line", "{", "}", "{}", "[]", "null", `"str"`, "123", `{"a":`, `{"a":1`, `{"a":1,}`, `{"a" 1}`, `{"a":tru`, `{"a":"\ud800"}`, `{"a":"\u12"}`,
		`{"n":1e999}`, `{"n":-0}`, `{"n":9223372036854775808}`, `{"n":-9223372036854775809}`, `{"n":1e-999}`, `{"n":NaN}`, `{"n":Infinity}`, `{"n":0x10}`, `{"n":01}`, `{"n":1.}`, `{"n":.5}`, `{"n":--1}`,
		"level=error msg==oops status=500\n\"GET /\" took=3ms", " \n=", "a==b \n=c", "k=\"unterminated \n\"x\" y=1", "x=1 =\n=\n =", "a=b\n\"c\"=d e", `{"":"empty key"}`, `{"a":"x","a":"dup"}`, `{"a.b":1,"a_b":2,"a-b":3}`, `{"__error__":"user"}`, `{"msg":"x","app":"y"}`, `{"_entry":5}`, `{"_entry":"e","bad name":"v"}`, `{"_entry":null,"k":{"x":1}}`,
		`a="`, `=`, `a==b`, "\x00=1", `a=1 a=2`, `a="x\"`, `"a"="b"`, `a=\xff`, `level=info status=1e999 dur=99999999999999h size=9999999999999999999EB addr=999.999.999.999`,
		`status=0x1p-2 dur=1 size=-1 addr=::ffff:1.2.3.4%eth0`, "status=١٢٣ dur=∞ size=1_000 addr=1.1.1.1.1.1.1", ":::::::", "1.1.1.1.1.1.1.1 ::::1 fe80::1%lo0 ::ffff:10.0.0.1 0.0.0.0",
		"\x1b[31mred\x1b[0m \x1b[ \x1b \x9b31m", "<_> <a> <b>", "{{ .x }} {{ range }}", "%!s(MISSING) %d %s", strings.Repeat("a b ", 50),
		deepJSON(`{"a":`, "}", "1", 10), deepJSON("[", "]", "1", 50), deepJSON(`{"a":`, "}", "1", 200), deepJSON("[", "]", "{}", 300), deepJSON(`{"a":[`, "]}", "null", 100),
		deepJSON(`{"a":`, "", "1", 100), deepJSON("[", "", "", 500),
		`10.0.0.5 - alice [r1] "GET /x" 200 512`, `10.0.0.5 - - [] "" - -`, `- - - [ "GET`, "a|b|c|d", "a - b - c",
	}
	lines = append(lines, string(r.Bytes(r.Range(1, 200))), string(r.Bytes(r.Range(1, 50))))
	lines = append(lines, hostileJSONKeys...)
	if big {
		lines = append(lines,
			strings.Repeat("x", 70000),
			`{"big":"`+strings.Repeat("y", 100000)+`"}`,
			strings.Repeat("k=v ", 20000),
			strings.Repeat("ab", 40000), // long hex run without ':' (ip scanner)
			strings.Repeat("1.2.3.4 ", 10000),
			deepJSON(`{"a":`, "}", "1", 1000),
			deepJSON("[", "]", "1", 2000),
		)
	}
	return lines
}

var hostileLabelVals = []string{"", "x", "1e999", "-1e999", "NaN", "Inf", "0x1p-2", "١٢٣", "1_000", "∞", "9223372036854775808", "1.7976931348623157e309", "99999999999999h", "1ns1h", "9999999999999999999EB", "1e30GB", "-5KB", "999.999.999.999", "::ffff:1.2.3.4", "fe80::1%eth0", "\xff", "a\x00b", strings.Repeat("9", 400), "{{.x}}", "<a>"}

// JSON documents whose KEYS are hostile (they become label names): multi-byte runes before and after
// characters a name cannot hold, empty and very long keys, keys that are only separators
var hostileJSONKeys = []string{`{"é.":1}`, `{"größe.m":3,"ok":true}`, `{"温度/℃":21.5}`, `{"":1,".":2,"..":3}`, `{"a\u0000b":1}`, `{"ключ-значение":"v","k":{"вложенный.ключ":1}}`, `{"🙂🙂.🙂":1}`,
	`{"x.é":1,"é":2,"é.x.é.":3}`, `{"` + strings.Repeat("ß.", 300) + `":1}`, `{"\ud83d\ude00-key":1}`, `{"a b\tc":1,"9":2,"-":3}`}

func hostileRecs(r *vk.RNG, big bool) []Rec {
	lines := hostileLines(r, big)
	n := r.Range(0, 12)
	var recs []Rec
	for i := 0; i < n; i++ {
		l := map[string]string{"job": "j"}
		for _, k := range []string{"app", "status", "dur", "size", "addr", "v"} {
			if r.Bool() {
				l[k] = vk.Pick(r, hostileLabelVals)
			}
		}
		recs = append(recs, Rec{TS: metricT0 + int64(r.Intn(40))*5e8 + int64(i), Line: vk.Pick(r, lines), Labels: l})
	}
	sortRecs(recs)
	return recs
}

// ---- query corpus

var c17Seeds = []string{
	`{job="j"}`, `{}`, `{job=~".*", app!="x"}`, `{job="j"} |= "a" != "b" |~ "c" !~ "d"`, `{job="j"} |= ip("10.0.0.0/8") != ip("::1")`,
	`{job="j"} | json`, `{job="j"} | json a, b`, `{job="j"} | json x="a.b[0].c", y="[\"k\"]"`, `{job="j"} | logfmt`, `{job="j"} | logfmt a, b="c"`, `{job="j"} | unpack`,
	`{job="j"} | pattern "<a> - <b> [<_>] \"<m> <p>\" <s> <z>"`, `{job="j"} | regexp "(?P<a>\\S+) (?P<b>.*)"`, `{job="j"} | decolorize`,
	`{job="j"} | regexp "(?P<a>zzz)?(?P<b>.*)"`, `{job="j"} | regexp "(?P<a>^GET)|(?P<b>POST)|(?P<c>.)"`, `{job="j"} | regexp "(?P<a>x)*(?P<b>y)?$"`, `{job="j"} | pattern "<a> <_> <b>" | regexp "(?P<a>nomatch)?"`,
	`{job="j"} | line_format "{{ .app }} {{ __line__ }} {{ __timestamp__ | unixEpoch }}"`, `{job="j"} | label_format a=b, c="{{ .d | ToUpper }}"`,
	`{job="j"} | line_format "{{ .status | int | add 1 }} {{ div 1 0 }} {{ .dur | duration }} {{ fromJson __line__ }}"`,
	`{job="j"} | label_format x="{{ regexReplaceAll \"(\" .app \"\" }}{{ unixToTime .v }}{{ .size | bytes }}{{ b64dec .app }}{{ urldecode .app }}{{ toDate \"2006\" .v }}"`,
	`{job="j"} | drop a, b="c", d=~"e.*" | keep f, g!="h"`, `{job="j"} | distinct a, b`,
	`{job="j"} | status >= 400 and dur > 1s or size < 1KB, addr == ip("10.0.0.0/8")`, `{job="j"} | (status == 1 or status != 2) and __error__ = ""`, `{job="j"} | v > 1e999 | v < -1e999 | dur >= 9999h`,
	`{job="j"} | json | status > 0 | line_format "{{.n}}" | logfmt | unpack | json | distinct n`,
	`count_over_time({job="j"}[5s])`, `rate({job="j"} |= "a" [1m] offset 30s)`, `bytes_over_time({job="j"}[1s])`, `bytes_rate({job="j"} | json [10s])`,
	`sum_over_time({job="j"} | unwrap v [5s])`, `avg_over_time({job="j"} | logfmt | unwrap bytes(size) [5s]) by (app)`, `quantile_over_time(0.99, {job="j"} | unwrap duration(dur) | v != "x" [5s]) without (app)`,
	`quantile_over_time(-1, {job="j"} | unwrap v [5s])`, `stddev_over_time({job="j"} | unwrap duration_seconds(dur) [5s])`, `first_over_time({job="j"} | unwrap v [1ms])`, `last_over_time({job="j"} | unwrap status [100h])`,
	`max_over_time({job="j"} | unwrap v [5s]) by ()`, `min_over_time({job="j"} | unwrap v [5s]) without ()`, `stdvar_over_time({job="j"} | unwrap v [5s])`, `rate({job="j"} | unwrap v [5s])`,
	`absent_over_time({job="j"}[5s])`, `rate_counter({job="j"} | unwrap v [5s])`,
	`sum(count_over_time({job="j"}[5s]))`, `sum by (app) (count_over_time({job="j"}[5s]))`, `avg without (app, status) (rate({job="j"}[5s]))`, `topk(3, count_over_time({job="j"}[5s]))`, `bottomk by (app) (1, count_over_time({job="j"}[5s]))`,
	`sort(count_over_time({job="j"}[5s]))`, `sort_desc(sum by (app) (count_over_time({job="j"}[5s])))`, `stddev(count_over_time({job="j"}[5s]))`, `stdvar by (app) (count_over_time({job="j"}[5s]))`, `count(max by (status) (min(count_over_time({job="j"}[5s])) by (app, status)))`,
	`count_over_time({job="j"}[5s]) + count_over_time({job="j"}[3s])`, `count_over_time({job="j"}[5s]) / 0`, `2 ^ count_over_time({job="j"}[5s]) % 3`, `count_over_time({job="j"}[5s]) > bool 1`, `count_over_time({job="j"}[5s]) == count_over_time({job="j"}[5s])`,
	`count_over_time({job="j"}[5s]) and count_over_time({job="j"}[3s]) or vector(1) unless vector(2)`, `vector(1) + vector(2) * vector(3) ^ vector(2) ^ vector(3)`, `vector(0) / vector(0) % vector(0)`, `1 + 1`, `1`, `-1`, `vector(1e308) * vector(1e308)`,
	`count_over_time({job="j"}[5s]) + on (app) group_left (status) count_over_time({job="j"}[5s])`, `count_over_time({job="j"}[5s]) * ignoring (app) count_over_time({job="j"}[5s])`,
	`label_replace(count_over_time({job="j"}[5s]), "a", "$1", "app", "(.*)")`, `sum(label_replace(rate({job="j"}[5s]), "a", "b", "c", ".*")) by (a)`,
	`(((count_over_time({job="j"}[5s]))))`, `((vector(1)) + ((vector(2))))`, `sum(sum(sum(sum(sum(count_over_time({job="j"}[5s]))))))`,
	`{job=""} |= "" != "" |~ "" !~ "" | json a="" | logfmt b="" | pattern "" | regexp "" | line_format "" | label_format c="" | drop d="" | keep e=~"" | f="" | g=~""`,
	`{job="j"} | logfmt lvl=""`, `{job="j"} | json lvl=""`, `{job="j"} | pattern ""`, `{job="j"} |= ip("")`, `{job="j"} | addr == ip("")`, `count_over_time({job="j"} | logfmt lvl="" [1m])`,
	`label_replace(count_over_time({job="j"}[5s]), "", "", "", "")`, `sum_over_time({job="j"} | unwrap v | v="" [5s])`, `quantile_over_time(0, {job="j"} | unwrap bytes(v) [0s])`, `topk(1, count_over_time({job=""}[1ns] offset 0s)) by ()`,
	`topk(9223372036854775807, count_over_time({job="j"}[5s]))`, `bottomk(4611686018427387904, sum by (app) (count_over_time({job="j"}[5s])))`, `topk(2147483648, count_over_time({job="j"}[5s])) by (app)`,
	`quantile_over_time(1e308, {job="j"} | unwrap v [5s])`,
	// parameters outside [0,1] over series that do have several samples (one series through the grouping)
	`quantile_over_time(1.5, {job="j"} | unwrap v [1m]) by (job)`, `quantile_over_time(7, {job="j"} | unwrap v [1m]) by ()`, `quantile_over_time(2, {job="j"} | unwrap status [1m]) without (app, status, dur, size, addr, v, msg)`,
	`quantile_over_time(1.0000001, {job="j"} | logfmt | unwrap v [1m]) by (job)`, `sum(quantile_over_time(99, {job="j"} | unwrap bytes(size) [1m]) by (job))`, `count_over_time({job="j"}[9223372036s])`, `count_over_time({job="j"}[1ns] offset 9223372036s)`,
	// selectors and stages whose regular expression does not compile
	`{job=~"web("}`, `{container!~"[a-"}`, `count_over_time({job=~"("}[1m])`, `{job="j", app=~"x{2,1}"}`, `{job="j"} | drop app=~"("`, `{job="j"} | app=~"[z-a]"`, `sum(rate({job=~"\\"}[5s]))`,
	// template functions that scan their input, with patterns that match the empty string and odd counts / widths
	"{job=\"j\"} | line_format `{{ count \"e*\" __line__ }} {{ count \"\" __line__ }} {{ count \".*\" .app }} {{ count \"x?\" __line__ }} {{ count \"(a|)\" __line__ }} {{ count \"\\\\b\" __line__ }} {{ count \"^\" __line__ }} {{ count \"$\" __line__ }}`",
	"{job=\"j\"} | label_format n=`{{ count \"[0-9]*\" __line__ }}`, m=`{{ regexReplaceAll \"\" __line__ \"-\" }}{{ regexReplaceAll \"x*\" .app \"$0$0\" }}{{ regexReplaceAllLiteral \"\\\\b\" __line__ \"|\" }}{{ regexReplaceAll \"(?:)\" .app \"${1}\" }}`",
	"{job=\"j\"} | line_format `{{ alignLeft 0 __line__ }}{{ alignRight -5 __line__ }}{{ alignLeft 1000000 .app }}{{ alignRight 3 \"\\xff\\xfe\" }}`",
	"{job=\"j\"} | line_format `{{ Replace __line__ \"\" \"x\" -1 }}{{ Replace __line__ \"\" \"\" 5 }}{{ Trim __line__ \"\" }}{{ TrimLeft .app \"\" }}{{ TrimPrefix __line__ __line__ }}`",
	"{job=\"j\"} | line_format `{{ __line__ | urlencode | urldecode }}{{ urldecode \"%\" }}{{ urldecode \"%zz%\" }}{{ \"9223372036854775807\" | unixToTime }}{{ \"-1\" | unixToTime }}{{ unixToTime \"17000000000000000000\" }}`",
	"{job=\"j\"} | line_format `{{ __timestamp__ | unixEpochMillis }}{{ __timestamp__ | unixEpochNanos }}{{ toDateInZone \"2006-01-02\" \"Nowhere/None\" .v }}{{ toDateInZone \"\" \"\" \"\" }}`",
	"sum_over_time({job=\"j\"} | label_format n=`{{ count \"a*\" __line__ }}` | unwrap n [5s])",
	`{job="j"} # comment`, "{job=\"j\"}\n|= `raw`\n| json", `{job="j"} |= "\x00\xff"`, `{job="j"} |~ "(a|b)*c{1,3}[[:alpha:]]\\pL"`,
}

var c17TokenRe = regexp.MustCompile("\"(?:[^\"\\\\]|\\\\.)*\"|`[^`]*`|[A-Za-z_][A-Za-z0-9_]*|[0-9]+(?:\\.[0-9]+)?[a-zA-Z]*|\\|=|\\|~|!=|!~|=~|==|>=|<=|\\s+|.")

func tokenize(q string) []string { return c17TokenRe.FindAllString(q, -1) }

var c17Vocabulary = []string{"{", "}", "(", ")", "[", "]", "|", ",", "=", "!=", "=~", "!~", "|=", "|~", "==", ">", ">=", "<", "<=", "+", "-", "*", "/", "%", "^", "and", "or", "unless", "by", "without", "bool", "on", "ignoring",
	"group_left", "group_right", "offset", "unwrap", "json", "logfmt", "regexp", "pattern", "unpack", "line_format", "label_format", "decolorize", "distinct", "drop", "keep", "ip", "bytes", "duration", "duration_seconds",
	"count_over_time", "rate", "sum_over_time", "quantile_over_time", "absent_over_time", "sum", "avg", "topk", "sort", "vector", "label_replace", "5s", "1h", "0s", "10KB", "1", "0", "-1", "1e999", "0.5", "\"x\"", "\"\"", "`y`", "job", "app", "#", "\n", " "}

func mutateQuery(r *vk.RNG, q string) (string, string) {
	switch r.Intn(10) {
	case 0, 1, 2, 3, 4: // token-level
		toks := tokenize(q)
		if len(toks) == 0 {
			return q, "token"
		}
		k := r.Range(1, 3)
		for i := 0; i < k && len(toks) > 0; i++ {
			p := r.Intn(len(toks))
			switch r.Intn(7) {
			case 5: // blank out a string literal / zero a number
				for tries := 0; tries < 8; tries++ {
					q := r.Intn(len(toks))
					if strings.HasPrefix(toks[q], "\"") || strings.HasPrefix(toks[q], "`") {
						toks[q] = vk.Pick(r, []string{`""`, "``", `" "`, `"\x00"`, `"("`, `"{{"`, `"<"`, `"["`, `"\\"`})
						break
					}
				}
			case 6:
				for tries := 0; tries < 8; tries++ {
					q := r.Intn(len(toks))
					if len(toks[q]) > 0 && toks[q][0] >= '0' && toks[q][0] <= '9' {
						toks[q] = vk.Pick(r, []string{"0", "0s", "0.0", "1e999", "9223372036854775807", "99999999999h", "0B", "1ns"})
						break
					}
				}
			case 0:
				toks = append(toks[:p], toks[p+1:]...)
			case 1:
				toks = append(toks[:p+1], toks[p:]...)
			case 2:
				o := r.Intn(len(toks))
				toks[p], toks[o] = toks[o], toks[p]
			case 3:
				toks[p] = vk.Pick(r, c17Vocabulary)
			default:
				toks = append(toks[:p], append([]string{vk.Pick(r, c17Vocabulary)}, toks[p:]...)...)
			}
		}
		return strings.Join(toks, ""), "token"
	case 5, 6, 7: // byte-level, outside string literals (templates could otherwise become resource bombs by construction)
		b := []byte(q)
		inStr := make([]bool, len(b))
		for _, loc := range regexp.MustCompile("\"(?:[^\"\\\\]|\\\\.)*\"|`[^`]*`").FindAllStringIndex(q, -1) {
			for i := loc[0] + 1; i < loc[1]-1; i++ {
				inStr[i] = true
			}
		}
		k := r.Range(1, 3)
		for i := 0; i < k && len(b) > 0; i++ {
			p := r.Intn(len(b))
			if inStr[p] {
				continue
			}
			switch r.Intn(3) {
			case 0:
				b[p] = byte(r.U64())
			case 1:
				b = append(b[:p], b[p+1:]...)
				inStr = append(inStr[:p], inStr[p+1:]...)
			default:
				b = append(b[:p], append([]byte{byte(r.U64())}, b[p:]...)...)
				inStr = append(inStr[:p], append([]bool{false}, inStr[p:]...)...)
			}
		}
		return string(b), "byte"
	case 8:
		return string(r.Bytes(r.Range(0, 40))), "random"
	default:
		// splice two seeds
		o := vk.Pick(r, c17Seeds)
		a, b2 := r.Intn(len(q)+1), r.Intn(len(o)+1)
		return q[:a] + o[b2:], "splice"
	}
}

type c17Input struct {
	Class string `json:"class"`
	Query string `json:"query"`
	Recs  []Rec  `json:"records"`
	P     EvalP  `json:"params"`
	Big   bool   `json:"big"`
	// Daemon > 0: the records are served by that many fake Docker containers (labelled job=j) instead of
	// the in-memory storage; the first container's log is repeated up to LongLog frames, and BreakAt >= 0
	// puts a frame without timestamp at that index of the last container's log.
	Daemon  int `json:"daemon,omitempty"`
	LongLog int `json:"long_log,omitempty"`
	BreakAt int `json:"break_at,omitempty"`
	// Silent > 0: the container listed at that (1-based) position has no record in the range -- among
	// others that have.
	Silent int `json:"silent,omitempty"`
}

// c17Inventory lays the input's records out as container logs (a pure function of the input).
func c17Inventory(in c17Input) []CSpec {
	inv := make([]CSpec, in.Daemon)
	for i := range inv {
		inv[i] = CSpec{ID: fmt.Sprintf("id%d", i), Name: fmt.Sprintf("/c%d", i), Image: "img", State: "running", Labels: map[string]string{"job": "j", "app": "x"}}
	}
	var live []int
	for i := range inv {
		if i != in.Silent-1 {
			live = append(live, i)
		}
	}
	for i, rec := range in.Recs {
		ci := live[i%len(live)]
		inv[ci].Frames = append(inv[ci].Frames, Frame{Type: byte(1 + i%2), TS: rec.TS, Body: rec.Line})
	}
	for i := range inv {
		sort.SliceStable(inv[i].Frames, func(a, b int) bool { return inv[i].Frames[a].TS < inv[i].Frames[b].TS })
	}
	// only ordinary-sized lines are repeated: some stages cost seconds on one 80 KB line, and a log of
	// hundreds of them is a resource request (8 minutes measured), not a question of termination
	long := live[0]
	var base []Frame
	for _, f := range inv[long].Frames {
		if len(f.Body) <= 4096 {
			base = append(base, f)
		}
	}
	if len(base) > 0 {
		lastTS := inv[long].Frames[len(inv[long].Frames)-1].TS
		for k := 0; len(inv[long].Frames) < in.LongLog; k++ {
			f := base[k%len(base)]
			f.TS = lastTS + int64(k+1)*1e6
			inv[long].Frames = append(inv[long].Frames, f)
		}
	}
	if last := &inv[len(inv)-1]; in.BreakAt >= 0 && in.BreakAt < len(last.Frames) {
		last.Frames[in.BreakAt].Raw = "line-without-timestamp"
	}
	return inv
}

// c17Gen is a pure function of (seed, idx).
func c17Gen(seed int64, idx int, big bool) c17Input {
	r := vk.NewRNG(vk.SeedOf(seed, "C17", "eval", idx))
	var in c17Input
	in.Big = big
	in.Recs = hostileRecs(r, big)
	switch r.Intn(10) {
	case 0, 1:
		in.Query, in.Class = vk.Pick(r, c17Seeds), "grammar-seed"
	case 2:
		// generated by the C01/C09 generators (valid by construction)
		ds := genDataset(r, vk.Pick(r, []string{"json", "logfmt", "plain", "access", "packed"}), 5, metricT0)
		u1, u2 := 0, 0
		if r.Bool() {
			q := genLogQuery(r, ds, genOpts{Distinct: true, MaxStages: 5}, &u1, &u2)
			for i := 0; i < r.Intn(3); i++ {
				pushStage(&q, genRewriteStage(r, ds, true, false))
			}
			in.Query = q.Text()
		} else {
			var e MExpr = genRangeQ(r, true)
			for i := 0; i < r.Intn(3); i++ {
				e = genVecAgg(r, e, 5)
			}
			if r.Bool() {
				e = &BinOp{Op: vk.Pick(r, append(c12Ops, c12SetOps...)), L: e, R: genRangeQ(r, true)}
			}
			in.Query = e.Text()
		}
		in.Class = "grammar-generated"
	default:
		in.Query, in.Class = mutateQuery(r, vk.Pick(r, c17Seeds))
	}
	// evaluation parameters: instant, or a positive step with <= 64 steps; any limit
	start := metricT0 + int64(r.Intn(20))*1e9
	if r.Chance(1, 3) {
		in.P = EvalP{Start: start, End: start, Step: 0}
	} else {
		step := vk.Pick(r, []time.Duration{time.Millisecond, 500 * time.Millisecond, time.Second, 7 * time.Second, time.Hour,
			// positive steps below a millisecond are positive steps (--step 0.0005)
			500 * time.Microsecond, 250 * time.Microsecond, time.Microsecond, 1})
		in.P = EvalP{Start: start, End: start + int64(r.Range(0, 63))*int64(step), Step: step}
	}
	in.P.Limit = vk.Pick(r, []int{-1, 0, 1, 5, 1000, -100})
	in.BreakAt = -1
	if idx%5 == 4 {
		// the same through the Docker storage: long logs, consumers that stop early (limit, broken frame)
		in.Daemon = r.Range(1, 3)
		in.LongLog = vk.Pick(r, []int{0, 70, 150, 400})
		if r.Chance(1, 3) {
			in.BreakAt = r.Intn(6)
		}
		if in.Daemon >= 2 && r.Chance(1, 2) {
			in.Silent = 1 + r.Intn(in.Daemon-1) // a silent container listed before a talking one
		}
	}
	return in
}

// c17Run evaluates one input; returns (panic text, stack, error text, result kind).
func c17Run(in c17Input) (panicked, stack, errText, kind string) {
	defer func() {
		if p := recover(); p != nil {
			panicked = fmt.Sprint(p)
			stack = string(debug.Stack())
		}
	}()
	caps := []logql.BinOp(nil)
	if len(in.Query)%2 == 0 {
		caps = allStrOps
	}
	var q logqlengine.Querier = &MemQuerier{Recs: in.Recs, LabelCaps: caps, LineCaps: caps, ErrAfter: -1}
	if in.Daemon > 0 {
		q = dockerQuerier(newFakeDocker(c17Inventory(in)))
	}
	res, err := evalQuery(q, in.Query, in.P)
	if err != nil {
		// a query that was refused is asked again (the user repeats it, a dashboard retries): the second
		// answer is an answer too -- whatever the first attempt left behind in the process
		if in.Daemon > 0 {
			q = dockerQuerier(newFakeDocker(c17Inventory(in)))
		}
		if _, err2 := evalQuery(q, in.Query, in.P); err2 != nil {
			return "", "", err2.Error(), ""
		}
		return "", "", "", "ok-on-retry"
	}
	return "", "", "", res.Kind
}

type c17Outcome struct {
	Idx     int     `json:"idx"`
	Class   string  `json:"class"`
	Panic   string  `json:"panic,omitempty"`
	Stack   string  `json:"stack,omitempty"`
	Err     bool    `json:"err"`
	Kind    string  `json:"kind,omitempty"`
	Seconds float64 `json:"seconds"`
	Timeout bool    `json:"timeout,omitempty"`
}

// c17Child evaluates cases [from,to) in this process, writing the index of each case to the progress
// file before running it and one JSON line per finished case to the outcome file.
func c17Child(seed int64, from, to int, big bool, budget time.Duration, progress, outcomes string) int {
	pf, err := os.OpenFile(progress, os.O_CREATE|os.O_WRONLY|os.O_TRUNC, 0o644)
	if err != nil {
		return 5
	}
	of, err := os.OpenFile(outcomes, os.O_CREATE|os.O_WRONLY|os.O_APPEND, 0o644)
	if err != nil {
		return 5
	}
	w := bufio.NewWriter(of)
	for idx := from; idx < to; idx++ {
		in := c17Gen(seed, idx, big)
		_, _ = pf.WriteAt([]byte(fmt.Sprintf("%-12d\n", idx)), 0)
		done := make(chan c17Outcome, 1)
		t0 := time.Now()
		go func() {
			p, st, e, k := c17Run(in)
			done <- c17Outcome{Idx: idx, Class: in.Class, Panic: p, Stack: st, Err: e != "", Kind: k}
		}()
		var out c17Outcome
		select {
		case out = <-done:
		case <-time.After(budget):
			out = c17Outcome{Idx: idx, Class: in.Class, Timeout: true}
		}
		out.Seconds = time.Since(t0).Seconds()
		line, _ := json.Marshal(out)
		_, _ = w.Write(append(line, '\n'))
		if out.Timeout {
			_ = w.Flush()
			return 4 // the evaluation goroutine cannot be stopped: let the parent restart us after idx
		}
	}
	_ = w.Flush()
	return 0
}

func runC17(r *vk.Run) {
	// child mode
	if os.Getenv("VERIF_C17_CHILD") != "" {
		if !raceEnabled {
			// a runaway evaluation must not take the whole machine down (the race build needs a huge address space)
			lim := syscall.Rlimit{Cur: 8 << 30, Max: 8 << 30}
			_ = syscall.Setrlimit(syscall.RLIMIT_AS, &lim)
		}
		from, _ := strconv.Atoi(os.Getenv("VERIF_C17_FROM"))
		to, _ := strconv.Atoi(os.Getenv("VERIF_C17_TO"))
		budget, _ := time.ParseDuration(os.Getenv("VERIF_C17_BUDGET"))
		os.Exit(c17Child(r.Seed, from, to, os.Getenv("VERIF_C17_BIG") == "1", budget, os.Getenv("VERIF_C17_PROGRESS"), os.Getenv("VERIF_C17_OUTCOMES")))
	}
	r.SetRule("queries = 90 grammar seeds covering every construct incl. unsupported ones, queries produced by the C01/C07/C09/C11 generators, token-level mutations (delete/duplicate/swap/substitute/insert from the LogQL vocabulary), byte mutations outside string literals, splices and random bytes; " +
		"data = hostile lines (arbitrary bytes, JSON nested to depth 1000/2000 and unbalanced, truncated JSON, extreme numbers, malformed logfmt, 70-100 KB lines, address-like garbage, ANSI garbage) with label values that break every numeric parser; " +
		"parameters = instant or positive step with <=64 steps, any limit; half of the runs with a storage that offloads all matchers. Each case runs Engine.Eval in a child process that records the case index before evaluating; a recovered panic, a fatal exit of the child, or an evaluation exceeding its budget twice (second time alone with 10x budget) is a violation. " +
		"non-trivial = distinct cases whose query passed parsing (evaluation reached the engine).")
	r.Assume("memory exhaustion is out of scope; template resource bombs by construction are not generated", "a watchdog hit is a violation only if it repeats with a 10x budget in isolation")

	total := r.N(200000, 10000000)
	bigTotal := r.N(2000, 60000)
	budget := 20 * time.Second
	exe, _ := os.Executable()

	if r.Replaying {
		r.Phase(r.ReplayPhase, 1, func(c *vk.Case) {
			in := c17Gen(r.Seed, c.Idx, r.ReplayPhase == "big")
			fmt.Printf("replaying case %d: class=%s query=%q\n", c.Idx, in.Class, in.Query)
			p, st, e, k := c17Run(in)
			c.Eval(1)
			fmt.Printf("panic=%q error=%q kind=%s\n", p, e, k)
			if p != "" {
				c.Fail("", "Engine.Eval panicked: "+p, map[string]any{"input": in, "stack": st})
			}
		})
		return
	}

	type span struct {
		phase    string
		from, to int
		big      bool
		bin      string
		oneCPU   bool // the child runs with GOMAXPROCS=1, as on a one-core VM or under a CPU quota of one
	}
	var spans []span
	workers := r.Workers
	per := (total + workers*4 - 1) / (workers * 4)
	raceBin := os.Getenv("VERIF_RACE_BIN")
	for from, k := 0, 0; from < total; from, k = from+per, k+1 {
		to := from + per
		if to > total {
			to = total
		}
		bin := exe
		// thorough: a quarter of the spans run in the -race build (checkptr + race detector)
		if r.Thorough() && k%4 == 3 && raceBin != "" {
			if _, err := os.Stat(raceBin); err == nil {
				bin = raceBin
			}
		}
		spans = append(spans, span{phase: "eval", from: from, to: to, bin: bin, oneCPU: len(spans)%4 == 1})
	}
	perBig := (bigTotal + workers - 1) / workers
	for from := 0; from < bigTotal; from += perBig {
		to := from + perBig
		if to > bigTotal {
			to = bigTotal
		}
		spans = append(spans, span{phase: "big", from: from, to: to, big: true, bin: exe})
	}
	dir := filepath.Join(vk.Root, "build", "c17")
	_ = os.RemoveAll(dir)
	_ = os.MkdirAll(dir, 0o755)

	var mu sync.Mutex
	slowest := c17Outcome{}
	confirmedHangs := 0
	runChild := func(sp span, from, to int, budget time.Duration, tag string) (int, string, string) {
		progress := filepath.Join(dir, fmt.Sprintf("%s-%d-%s.progress", sp.phase, sp.from, tag))
		outcomes := filepath.Join(dir, fmt.Sprintf("%s-%d-%s.outcomes", sp.phase, sp.from, tag))
		stderrPath := filepath.Join(dir, fmt.Sprintf("%s-%d-%s.stderr", sp.phase, sp.from, tag))
		cmd := exec.Command(sp.bin, "C17", r.Tier)
		big := "0"
		if sp.big {
			big = "1"
		}
		cmd.Env = append(os.Environ(), "VERIF_C17_CHILD=1", "VERIF_C17_FROM="+strconv.Itoa(from), "VERIF_C17_TO="+strconv.Itoa(to), "VERIF_C17_BIG="+big,
			"VERIF_C17_BUDGET="+budget.String(), "VERIF_C17_PROGRESS="+progress, "VERIF_C17_OUTCOMES="+outcomes, "VERIF_SEED="+strconv.FormatInt(r.Seed, 10),
			"GORACE=halt_on_error=1 log_path="+filepath.Join(dir, "race"))
		if sp.oneCPU {
			cmd.Env = append(cmd.Env, "GOMAXPROCS=1")
		}
		ef, _ := os.Create(stderrPath)
		cmd.Stderr = ef
		cmd.Stdout = ef
		err := cmd.Run()
		_ = ef.Close()
		code := 0
		if err != nil {
			code = -1
			if ee, ok := err.(*exec.ExitError); ok {
				code = ee.ExitCode()
			}
		}
		return code, progress, stderrPath
	}
	readOutcomes := func(c *vk.Case, path string) {
		f, err := os.Open(path)
		if err != nil {
			return
		}
		defer f.Close()
		sc := bufio.NewScanner(f)
		sc.Buffer(make([]byte, 1<<20), 1<<26)
		for sc.Scan() {
			var o c17Outcome
			if json.Unmarshal(sc.Bytes(), &o) != nil {
				continue
			}
			c.Eval(1)
			c.Count("class:"+o.Class, 1)
			switch {
			case o.Timeout:
				c.Count("watchdog_hits_first_pass", 1)
			case o.Panic != "":
				c.Count("panics", 1)
			case o.Err:
				c.Count("returned_error", 1)
			default:
				c.Count("returned_result:"+o.Kind, 1)
				c.Nontrivial(fmt.Sprintf("ok%s%d", path, o.Idx))
			}
			mu.Lock()
			if o.Seconds > slowest.Seconds {
				slowest = o
			}
			mu.Unlock()
		}
	}

	r.Phase("children", len(spans), func(c *vk.Case) {
		sp := spans[c.Idx]
		from := sp.from
		attempt := 0
		for from < sp.to {
			attempt++
			tag := fmt.Sprintf("a%d", attempt)
			code, progress, stderrPath := runChild(sp, from, sp.to, budget, tag)
			readOutcomes(c, strings.TrimSuffix(progress, ".progress")+".outcomes")
			c.Count("child_exits:"+strconv.Itoa(code), 1)
			if code == 0 {
				break
			}
			pb, _ := os.ReadFile(progress)
			last, perr := strconv.Atoi(strings.TrimSpace(string(pb)))
			if perr != nil || code == 5 {
				r.Inconclusive(fmt.Sprintf("C17 child for %s[%d,%d) failed to start (exit %d)", sp.phase, from, sp.to, code))
				return
			}
			fc := r.CaseFor(sp.phase, last)
			in := c17Gen(r.Seed, last, sp.big)
			switch code {
			case 4: // watchdog: re-run that case alone with 10x budget
				mu.Lock()
				tooMany := confirmedHangs >= 3
				mu.Unlock()
				if tooMany {
					// enough confirmed hangs were reported; do not spend 10x budgets on more
					c.Count("watchdog_hits_not_retried", 1)
					fc.Done()
					return
				}
				c2, _, _ := runChild(sp, last, last+1, 10*budget, tag+"-retry")
				if c2 == 4 {
					mu.Lock()
					confirmedHangs++
					mu.Unlock()
				}
				if c2 == 4 {
					fc.Fail("", fmt.Sprintf("evaluation did not finish within %s (and not within %s at first): query %q", 10*budget, budget, in.Query), map[string]any{"input": in})
				} else if c2 != 0 {
					se, _ := os.ReadFile(stderrPath)
					fc.Fail("", fmt.Sprintf("child died (exit %d) while re-running the slow case: query %q", c2, in.Query), map[string]any{"input": in, "stderr": trunc(string(se), 6000)})
				} else {
					c.Count("watchdog_hits_cleared_by_retry", 1)
				}
			default: // fatal runtime error / crash
				se, _ := os.ReadFile(stderrPath)
				fc.Fail("", fmt.Sprintf("evaluation killed the process (exit %d): query %q", code, in.Query), map[string]any{"input": in, "stderr": trunc(string(se), 6000)})
			}
			fc.Done()
			from = last + 1
		}
		// panics recorded by the child
		for a := 1; a <= attempt; a++ {
			path := filepath.Join(dir, fmt.Sprintf("%s-%d-a%d.outcomes", sp.phase, sp.from, a))
			f, err := os.Open(path)
			if err != nil {
				continue
			}
			sc := bufio.NewScanner(f)
			sc.Buffer(make([]byte, 1<<20), 1<<26)
			for sc.Scan() {
				var o c17Outcome
				if json.Unmarshal(sc.Bytes(), &o) == nil && o.Panic != "" {
					fc := r.CaseFor(sp.phase, o.Idx)
					in := c17Gen(r.Seed, o.Idx, sp.big)
					fc.Fail("", fmt.Sprintf("Engine.Eval panicked: %s; query %q", o.Panic, in.Query), map[string]any{"input": in, "stack": o.Stack})
					fc.Done()
				}
			}
			_ = f.Close()
		}
	})
	// thorough: the built plugin with hostile queries and flags against the fake daemon
	if r.Thorough() {
		r.Phase("e2e", 300, func(c *vk.Case) {
			rng := c.Rng
			inv := []CSpec{{ID: "id0", Name: "/c0", Image: "img", State: "running", Labels: map[string]string{"a.b": "x"}}, {ID: "id1", Name: "/c1", Image: "img", State: "exited"}}
			lines := hostileLines(rng, false)
			for i := range inv {
				for j := 0; j < 6; j++ {
					inv[i].Frames = append(inv[i].Frames, Frame{Type: byte(1 + j%2), TS: metricT0 + int64(j)*1e9 + int64(i), Body: vk.Pick(rng, lines)})
				}
			}
			d, err := startFakeDaemon(inv, rng.Bool())
			if err != nil {
				c.R.Inconclusive("fake daemon: " + err.Error())
				return
			}
			defer d.Close()
			q, class := mutateQuery(rng, vk.Pick(rng, c17Seeds))
			if rng.Chance(1, 3) {
				q, class = vk.Pick(rng, c17Seeds), "grammar-seed"
			}
			q = strings.ReplaceAll(q, `job="j"`, `container=~"c.*"`)
			if strings.ContainsRune(q, 0) {
				q = strings.ReplaceAll(q, "\x00", "?") // exec cannot pass NUL in arguments
			}
			// (the range stays within minutes so that even a 1 ms step means a bounded number of steps:
			// an enormous range with a tiny step is a resource request, not a hang)
			args := []string{q, "--start", vk.Pick(rng, []string{"1699999990", "1699999990.5", "2023-11-14T22:13:10Z", "garbage", "1699999000", "99999999999999999999"}),
				"--end", vk.Pick(rng, []string{"1700000100", "1700000100000000000", "2023-11-14T22:15:00+01:00", "0", "1e9"})}
			if rng.Bool() {
				args = append(args, "--limit", vk.Pick(rng, []string{"-5", "0", "1", "3", "999999999"}))
			}
			if rng.Bool() {
				args = append(args, "--step", vk.Pick(rng, []string{"1", "0.001", "1h", "0", "-1", "inf", "NaN", "1e400", "abc", "9999999d"}))
			}
			if rng.Bool() {
				args = append(args, "--since", vk.Pick(rng, []string{"1h", "0", "99999y", "abc", "-1h"}))
			}
			if rng.Bool() {
				args = append(args, fmt.Sprintf("--color=%v", rng.Bool()))
			}
			pr, err := runPlugin(d, 90*time.Second, args...)
			c.Eval(1)
			if err != nil {
				c.R.Inconclusive("cannot run plugin binary: " + err.Error())
				return
			}
			det := map[string]any{"args": args, "class": class, "stdout": trunc(string(pr.Stdout), 2000), "stderr": trunc(string(pr.Stderr), 6000), "exit": pr.Exit}
			se := string(pr.Stderr)
			switch {
			case pr.TimedOut:
				c.Fail("", fmt.Sprintf("plugin did not finish within 90s: %q", args), det)
			case strings.Contains(se, "panic:") || strings.Contains(se, "fatal error:") || strings.Contains(se, "goroutine 1 ["):
				c.Fail("", fmt.Sprintf("plugin crashed: %q: %s", args, trunc(se, 300)), det)
			default:
				c.Count("e2e_runs", 1)
				c.Count(fmt.Sprintf("e2e_exit:%d", pr.Exit), 1)
			}
		})
	}
	r.SetExtra("slowest_evaluation", slowest)
	func() {
		c := r.CaseFor("eval", 0)
		defer c.Done()
		for i := 0; i < 3; i++ {
			in := c17Gen(r.Seed, i*7+1, false)
			c.Sample("input", map[string]any{"class": in.Class, "query": in.Query, "records": len(in.Recs), "params": in.P})
		}
	}()
	r.Require("evaluations", int64(total/2))
	r.Require("returned_error", 1000)
	r.Require("class:token", 1000)
	r.Require("class:byte", 1000)
}

//go:build verif

package props

import (
	"fmt"
	"math"
	"math/big"
	"slices"
	"sort"
	"strings"
	"time"

	"github.com/tdakkota/docker-logql/internal/logql"
	"github.com/tdakkota/docker-logql/internal/zzverif/vk"
)

func init() {
	register("C11", "exploration", 8*time.Minute, 60*time.Minute, runC11)
}

var c11LabelNames = []string{"a", "b", "c"}

// genVectorRecs: every record is one member of the input vector in one step window; label sets over
// a,b,c with small value pools (so that groups have several members) and distinct values.
func genVectorRecs(r *vk.RNG, steps int, perStep int) []Rec {
	var recs []Rec
	val := 1
	twins := r.Chance(1, 6)
	blanks := r.Chance(1, 6)
	sep := vk.Pick(r, []string{"\xff", "\x00", ",", "=", "\n", "\xfe", "\"", " "})
	for s := 0; s < steps; s++ {
		used := map[string]bool{}
		n := r.Range(0, perStep)
		for i := 0; i < n; i++ {
			l := map[string]string{"job": "j"}
			for _, k := range c11LabelNames {
				if r.Chance(4, 5) {
					l[k] = vk.Pick(r, []string{"x", "y", "z"})
					if blanks {
						// values that differ only in surrounding white space are different values
						l[k] = vk.Pick(r, []string{"x", "x ", " x", "x\t", " ", "  ", "x\r", "", ""}) // (and present with the empty value, which is not absent)
					}
				}
			}
			if twins && i < 2 && sep == " " {
				// ... and two sets that read the same when a map is printed without quoting: a="x b:y" / a="x", b="y"
				if i == 0 {
					l = map[string]string{"job": "j", "a": "x b:y"}
				} else {
					l = map[string]string{"job": "j", "a": "x", "b": "y"}
				}
			} else if twins && i < 2 {
				// two label sets that coincide under any framing that joins names and values with the
				// separator sep: a=x<sep>b<sep>y,b=z and a=x,b=y<sep>b<sep>z
				if i == 0 {
					l = map[string]string{"job": "j", "a": "x" + sep + "b" + sep + "y", "b": "z"}
				} else {
					l = map[string]string{"job": "j", "a": "x", "b": "y" + sep + "b" + sep + "z"}
				}
			}
			key := labelKey(l)
			if used[key] {
				continue // one sample per series and window keeps the inner value exact
			}
			used[key] = true
			val += r.Range(1, 9)
			v := val
			if r.Chance(1, 6) {
				v = -v
			}
			ts := metricT0 + int64(s)*4e9 + 5e8 + int64(r.Intn(3000))*1e6
			recs = append(recs, Rec{TS: ts, Line: fmt.Sprintf("v=%d", v), Labels: l})
		}
	}
	sortRecs(recs)
	return recs
}

func c11Leaf() *RangeQ {
	pairsOf := func(line string) ([][2]string, bool) { return splitFields(line), true }
	return &RangeQ{
		Log:     LogQ{Sel: []selMatcher{{Label: "job", Op: logql.OpEq, OpS: "=", Value: "j"}}, Stages: []Stage{stLogfmtAll(pairsOf)}},
		Fn:      "max_over_time",
		Range:   4 * time.Second,
		Unwrap:  "v",
		Grouped: true, Without: true, Group: []string{"v", "msg"},
	}
}

func genGrouping(r *vk.RNG) (grouped, without bool, names []string) {
	grouped, without, names = genGrouping0(r)
	if len(names) >= 1 && r.Chance(1, 4) {
		// a grouping clause is a set of names: a name written twice (next to itself or further on) changes nothing
		dup := names[r.Intn(len(names))]
		if r.Bool() {
			names = append(append([]string{}, names...), dup)
		} else {
			at := r.Intn(len(names) + 1)
			names = append(append(append([]string{}, names[:at]...), dup), names[at:]...)
		}
	}
	return grouped, without, names
}

func genGrouping0(r *vk.RNG) (grouped, without bool, names []string) {
	switch r.Intn(7) {
	case 0:
		return false, false, nil
	case 1:
		return true, false, nil // by ()
	case 2:
		return true, true, nil // without ()
	case 3, 4:
		names = vk.Subset(r, []string{"a", "b", "c", "job", "nosuch"})
		return true, false, names
	default:
		names = vk.Subset(r, []string{"a", "b", "c", "nosuch"})
		return true, true, names
	}
}

func genVecAgg(r *vk.RNG, inner MExpr, n int) *VecAgg {
	op := vk.Pick(r, []string{"sum", "avg", "min", "max", "count", "stddev", "stdvar", "topk", "bottomk", "sum", "topk"})
	a := &VecAgg{Op: op, Inner: inner, GroupFirst: r.Bool()}
	a.Grouped, a.Without, a.Group = genGrouping(r)
	if op == "topk" || op == "bottomk" {
		a.K = vk.Pick(r, []int{1, 2, 3, n, n + 1})
		if a.K < 1 {
			a.K = 1
		}
	}
	return a
}

func runC11(r *vk.Run) {
	r.SetRule("input vectors with arbitrary label sets over a,b,c (values x,y,z, labels sometimes absent) and distinct positive/negative values are produced through the engine itself (max_over_time(.. | unwrap v [4s]) without (v,msg), one sample per series and window); " +
		"on top: sum/avg/min/max/count/stddev/stdvar/topk/bottomk x {no grouping, by(), without(), by(L), without(L)} with non-existent labels, k in {1,2,3,n,n+1}, nested to depth three, evaluated per step of range queries and as instant queries; sort/sort_desc as instant queries (order checked). " +
		"Oracle: group-by reference model. non-trivial = distinct (data, expression) where some group has >=2 members.")
	r.Assume("distinct values make top-k and sort order unambiguous", "by () is read as 'one group, empty label set' like no grouping clause")
	env0, err := calibrateMetric()
	if err != nil {
		r.Inconclusive(err.Error())
		return
	}

	r.Phase("groups", r.N(8000, 1200000), func(c *vk.Case) {
		rng := c.Rng
		steps := rng.Range(1, 4)
		recs := genVectorRecs(rng, steps, 8)
		env := &MEnv{Recs: recs, Msg: env0.Msg, UnwrapKeeps: env0.UnwrapKeeps, CmpFalse: env0.CmpFalse, CmpFalseBool: env0.CmpFalseBool}
		var expr MExpr = c11Leaf()
		depth := rng.Range(1, 3)
		for d := 0; d < depth; d++ {
			expr = genVecAgg(rng, expr, 8)
		}
		p := EvalP{Start: metricT0 + 4e9, End: metricT0 + int64(steps)*4e9, Step: 4 * time.Second}
		instant := rng.Chance(1, 4)
		if instant {
			T := metricT0 + int64(rng.Range(1, steps))*4e9
			p = EvalP{Start: T, End: T}
			if rng.Bool() {
				op := vk.Pick(rng, []string{"sort", "sort_desc"})
				expr = &VecAgg{Op: op, Inner: expr}
			}
		}
		text := expr.Text()
		mq := &MemQuerier{Recs: recs, ErrAfter: -1}
		res, err := evalQuery(mq, text, p)
		c.Eval(1)
		det := func() map[string]any {
			return map[string]any{"query": text, "records": recs, "params": p, "result": res, "shape": expr.Shape()}
		}
		if err != nil {
			c.Fail("", "query failed: "+text+": "+err.Error(), det())
			return
		}
		m := compareMetric(expr, env, p, res, 1e-9)
		if env.Ambiguous > 0 {
			c.Count("discarded_topk_cut_in_tie", 1)
			return
		}
		if m != "" {
			key := ""
			c.Fail(key, text+": "+m, det())
			return
		}
		if va, ok := expr.(*VecAgg); ok && (va.Op == "sort" || va.Op == "sort_desc") {
			want := expr.Eval(env, p.Start)
			if len(res.Series) != len(want.Order) {
				c.Fail("", fmt.Sprintf("%s returned %d series, input has %d", va.Op, len(res.Series), len(want.Order)), det())
				return
			}
			for i, k := range want.Order {
				// series with equal values may come in any order: compare the value sequence
				if got := res.Series[i].Points[0].V; !vk_almost(got, want.M[k].V, 1e-9) {
					d := det()
					d["expected_order"] = want.Order
					c.Fail("", fmt.Sprintf("%s: position %d holds %s (value %v), expected value %v (%s)", va.Op, i, labelKey(res.Series[i].Labels), got, want.M[k].V, k), d)
					return
				}
			}
			c.Count("sort_orders_checked", 1)
		}
		// coverage: was there a group with >= 2 members?
		multi := false
		var walk func(e MExpr)
		walk = func(e MExpr) {
			if va, ok := e.(*VecAgg); ok {
				for _, T := range gridTimes(p) {
					in := va.Inner.Eval(env, T)
					out := va.Eval(env, T)
					if len(in.M) > len(out.M) || (len(in.M) >= 2 && (va.Op == "topk" || va.Op == "bottomk" || va.Op == "sort" || va.Op == "sort_desc")) {
						multi = true
					}
					c.Count("groups", len(out.M))
					c.Count("members", len(in.M))
				}
				walk(va.Inner)
			}
		}
		walk(expr)
		c.Seen("shapes", shapeSummary(expr))
		c.Count("depth:"+fmt.Sprint(depth), 1)
		if multi {
			c.Nontrivial(fmt.Sprintf("%d|%s", c.Idx, text))
		}
		if c.Idx < 6 {
			c.Sample("groups", map[string]any{"query": text, "records": len(recs), "instant": instant})
		}
	})
	// large vectors: sorting and top-k over many members (library sorts switch algorithm with size)
	r.Phase("large", r.N(300, 60000), func(c *vk.Case) {
		rng := c.Rng
		n := rng.Range(13, 120)
		many := c.Idx%25 == 7
		if many {
			// a grouping by something like a request id: hundreds, thousands of groups in one step
			n = vk.Pick(rng, []int{501, 640, 1025, 2100})
			c.Count("large_vectors_over_500_groups", 1)
		}
		var recs []Rec
		perm := rng.Perm(n)
		for i := 0; i < n; i++ {
			l := map[string]string{"job": "j", "a": fmt.Sprintf("s%03d", i), "b": vk.Pick(rng, []string{"x", "y"})}
			recs = append(recs, Rec{TS: metricT0 + 5e8 + int64(i)*1e6, Line: fmt.Sprintf("v=%d", perm[i]*3-n), Labels: l})
		}
		env := &MEnv{Recs: recs, Msg: env0.Msg, UnwrapKeeps: env0.UnwrapKeeps, CmpFalse: env0.CmpFalse, CmpFalseBool: env0.CmpFalseBool}
		var expr MExpr = c11Leaf()
		which := rng.Intn(4)
		if many {
			which = 4 + rng.Intn(2)
		}
		switch which {
		case 4: // one group per series
			expr = &VecAgg{Op: vk.Pick(rng, []string{"sum", "max", "count", "avg"}), Inner: expr, Grouped: true, Group: []string{"a"}}
		case 5: // ... and counted
			expr = &VecAgg{Op: "count", Inner: &VecAgg{Op: vk.Pick(rng, []string{"sum", "min"}), Inner: expr, Grouped: true, Without: true, Group: []string{"b", "job"}}}
		case 0:
			expr = &VecAgg{Op: "sort", Inner: expr}
		case 1:
			expr = &VecAgg{Op: "sort_desc", Inner: expr}
		case 2:
			expr = &VecAgg{Op: vk.Pick(rng, []string{"topk", "bottomk"}), K: rng.Range(1, n+2), Inner: expr}
		default:
			expr = &VecAgg{Op: vk.Pick(rng, []string{"topk", "bottomk"}), K: rng.Range(1, n/2), Inner: expr, Grouped: true, Group: []string{"b"}}
		}
		text := expr.Text()
		p := EvalP{Start: metricT0 + 4e9, End: metricT0 + 4e9}
		res, err := evalQuery(&MemQuerier{Recs: recs, ErrAfter: -1}, text, p)
		c.Eval(1)
		det := func() map[string]any { return map[string]any{"query": text, "members": n, "result": res, "records": recs} }
		if err != nil {
			c.Fail("", "query failed: "+text+": "+err.Error(), det())
			return
		}
		if m := compareMetric(expr, env, p, res, 0); m != "" {
			c.Fail("", text+": "+m, det())
			return
		}
		if va := expr.(*VecAgg); (va.Op == "sort" || va.Op == "sort_desc") && !many {
			want := expr.Eval(env, p.Start)
			for i, k := range want.Order {
				if i >= len(res.Series) || labelKey(res.Series[i].Labels) != k {
					c.Fail("", fmt.Sprintf("%s over %d series: position %d is not %s (value %v)", va.Op, n, i, k, want.M[k].V), det())
					return
				}
			}
			c.Count("sort_orders_checked", 1)
		}
		c.Count("large_vectors", 1)
		c.Nontrivial(fmt.Sprintf("large|%d|%s", c.Idx, text))
	})
	// many series over several steps: whatever a step's samples are buffered in, step t's groups are
	// made of step t's samples
	r.Phase("largesteps", r.N(60, 6000), func(c *vk.Case) {
		rng := c.Rng
		n := rng.Range(33, 140)
		steps := rng.Range(4, 12)
		var recs []Rec
		for st := 0; st < steps; st++ {
			perm := rng.Perm(n)
			for i := 0; i < n; i++ {
				if rng.Chance(1, 10) {
					continue // membership changes from step to step
				}
				l := map[string]string{"job": "j", "a": fmt.Sprintf("s%03d", i), "b": []string{"x", "y", "z"}[i%3]}
				recs = append(recs, Rec{TS: metricT0 + int64(st)*4e9 + 5e8 + int64(i)*1e6, Line: fmt.Sprintf("v=%d", perm[i]*7-n+st*1000), Labels: l})
			}
		}
		sortRecs(recs)
		env := &MEnv{Recs: recs, Msg: env0.Msg, UnwrapKeeps: env0.UnwrapKeeps, CmpFalse: env0.CmpFalse, CmpFalseBool: env0.CmpFalseBool}
		var expr MExpr = &VecAgg{Op: vk.Pick(rng, []string{"sum", "count", "min", "max", "avg", "topk", "bottomk"}), K: 2, Inner: c11Leaf(), Grouped: true, Group: []string{"b"}}
		if rng.Chance(1, 3) {
			expr = &VecAgg{Op: vk.Pick(rng, []string{"sum", "count", "max"}), Inner: expr}
		}
		text := expr.Text()
		p := EvalP{Start: metricT0 + 4e9, End: metricT0 + int64(steps)*4e9, Step: 4 * time.Second}
		for rep := 0; rep < 3; rep++ {
			res, err := evalQuery(&MemQuerier{Recs: recs, ErrAfter: -1}, text, p)
			c.Eval(1)
			det := map[string]any{"query": text, "series": n, "steps": steps, "result": res}
			if err != nil {
				c.Fail("", "query failed: "+text+": "+err.Error(), det)
				return
			}
			if m := compareMetric(expr, env, p, res, 1e-9); m != "" {
				c.Fail("", fmt.Sprintf("%s over %d series x %d steps: %s", text, n, steps, m), det)
				return
			}
			c.Count("large_multi_step_evaluations", 1)
		}
		c.Nontrivial(fmt.Sprintf("largesteps|%d|%s", c.Idx, text))
	})
	r.Require("large_multi_step_evaluations", 100)
	// groups whose IEEE sum overflows: with only non-negative huge members the sum is +Inf in every
	// operand order, so the expected value is unambiguous (avg/stddev are left out: a running mean
	// need not overflow where sum/n does)
	r.Phase("overflow", r.N(400, 60000), func(c *vk.Case) {
		rng := c.Rng
		steps := rng.Range(1, 3)
		var recs []Rec
		for s := 0; s < steps; s++ {
			used := map[string]bool{}
			for i := 0; i < rng.Range(2, 7); i++ {
				l := map[string]string{"job": "j", "a": vk.Pick(rng, []string{"x", "y"}), "b": vk.Pick(rng, []string{"p", "q", "r", "s"})}
				if used[labelKey(l)] {
					continue
				}
				used[labelKey(l)] = true
				v := vk.Pick(rng, []string{"1e308", "9e307", "1.7e308", "5", "7", "0.5", "1e308"})
				recs = append(recs, Rec{TS: metricT0 + int64(s)*4e9 + 5e8 + int64(rng.Intn(3000))*1e6, Line: "v=" + v, Labels: l})
			}
		}
		sortRecs(recs)
		env := &MEnv{Recs: recs, Msg: env0.Msg, UnwrapKeeps: env0.UnwrapKeeps, CmpFalse: env0.CmpFalse, CmpFalseBool: env0.CmpFalseBool}
		a := &VecAgg{Op: vk.Pick(rng, []string{"sum", "sum", "sum", "max", "min", "count"}), Inner: c11Leaf(), GroupFirst: rng.Bool()}
		switch rng.Intn(3) {
		case 0:
			a.Grouped, a.Group = true, []string{"a"}
		case 1:
			a.Grouped, a.Without, a.Group = true, true, []string{"b"}
		}
		var expr MExpr = a
		if rng.Chance(1, 3) {
			expr = &VecAgg{Op: "sum", Inner: a}
		}
		text := expr.Text()
		p := EvalP{Start: metricT0 + 4e9, End: metricT0 + int64(steps)*4e9, Step: 4 * time.Second}
		res, err := evalQuery(&MemQuerier{Recs: recs, ErrAfter: -1}, text, p)
		c.Eval(1)
		det := map[string]any{"query": text, "records": recs, "params": p, "result": res}
		if err != nil {
			c.Fail("", "query failed: "+text+": "+err.Error(), det)
			return
		}
		if m := compareMetric(expr, env, p, res, 1e-9); m != "" {
			c.Fail("", text+": "+m, det)
			return
		}
		inf := 0
		for _, T := range gridTimes(p) {
			for _, sv := range expr.Eval(env, T).M {
				if math.IsInf(sv.V, 0) {
					inf++
				}
			}
		}
		c.Count("overflowing_group_sums", inf)
		if inf > 0 {
			c.Nontrivial(fmt.Sprintf("overflow|%d|%s", c.Idx, text))
		}
	})
	r.Require("overflowing_group_sums", 100)
	// avg over groups whose SUM overflows although their MEAN is an ordinary number (three series of
	// 1e308): the mean is what avg denotes; it is computed here with arbitrary precision
	r.Phase("bigavg", r.N(400, 40000), func(c *vk.Case) {
		rng := c.Rng
		var recs []Rec
		used := map[string]bool{}
		infSign := ""
		if c.Idx%4 == 3 {
			infSign = vk.Pick(rng, []string{"+", "-"})
		}
		for i := 0; i < rng.Range(3, 8); i++ {
			l := map[string]string{"job": "j", "a": vk.Pick(rng, []string{"x", "y"}), "b": vk.Pick(rng, []string{"p", "q", "r", "s", "t"})}
			if used[labelKey(l)] {
				continue
			}
			used[labelKey(l)] = true
			v := vk.Pick(rng, []string{"1e308", "9e307", "1.7e308", "8e307", "1e308", "5", "-1e308", "-9e307"})
			if infSign != "" {
				// members that are infinite, all of one sign: the mean of such a group is that infinity
				v = vk.Pick(rng, []string{infSign + "Inf", infSign + "Inf", "1", "5", "1e308", "-7"})
			}
			recs = append(recs, Rec{TS: metricT0 + 5e8 + int64(rng.Intn(3000))*1e6, Line: "v=" + v, Labels: l})
		}
		sortRecs(recs)
		env := &MEnv{Recs: recs, Msg: env0.Msg, UnwrapKeeps: env0.UnwrapKeeps, CmpFalse: env0.CmpFalse, CmpFalseBool: env0.CmpFalseBool}
		leaf := c11Leaf()
		byA := rng.Bool()
		text := "avg(" + leaf.Text() + ")"
		if byA {
			text = "avg by (a) (" + leaf.Text() + ")"
		}
		T := metricT0 + 4e9
		res, err := evalQuery(&MemQuerier{Recs: recs, ErrAfter: -1}, text, EvalP{Start: T, End: T})
		c.Eval(1)
		det := map[string]any{"query": text, "records": recs, "result": res}
		if err != nil {
			c.Fail("", "query failed: "+text+": "+err.Error(), det)
			return
		}
		sums := map[string]*big.Float{}
		infs := map[string]int{}
		counts := map[string]int{}
		maxAbs := map[string]float64{}
		for _, sv := range leaf.Eval(env, T).M {
			g := ""
			if byA {
				g = sv.L["a"]
			}
			if sums[g] == nil {
				sums[g] = new(big.Float).SetPrec(200)
			}
			counts[g] += 0
			if math.IsInf(sv.V, 0) {
				infs[g] = 1
				if sv.V < 0 {
					infs[g] = -1
				}
				counts[g]++
				continue
			}
			sums[g].Add(sums[g], new(big.Float).SetPrec(200).SetFloat64(sv.V))
			counts[g]++
			if m := math.Abs(sv.V); m > maxAbs[g] {
				maxAbs[g] = m
			}
		}
		if len(res.Series) != len(sums) {
			c.Fail("", fmt.Sprintf("%s: %d series, expected %d groups", text, len(res.Series), len(sums)), det)
			return
		}
		for _, s := range res.Series {
			g := s.Labels["a"]
			if sums[g] == nil || len(s.Points) != 1 {
				c.Fail("", fmt.Sprintf("%s: unexpected series %v", text, s.Labels), det)
				return
			}
			if infs[g] != 0 {
				if got := s.Points[0].V; !math.IsInf(got, infs[g]) {
					c.Fail("", fmt.Sprintf("%s: group %q = %v, its %d members include infinities of one sign (%+d): the mean is that infinity", text, g, got, counts[g], infs[g]), det)
					return
				}
				c.Count("avg_groups_with_infinite_members", 1)
				c.Nontrivial(fmt.Sprintf("infavg|%d|%s", c.Idx, g))
				continue
			}
			want, _ := new(big.Float).Quo(sums[g], new(big.Float).SetInt64(int64(counts[g]))).Float64()
			// members of opposite sign cancel: the error float64 arithmetic may leave is relative to the
			// largest member, not to the (possibly tiny) mean
			if got := s.Points[0].V; math.IsNaN(got) || math.IsInf(got, 0) || math.Abs(got-want) > 1e-9*maxAbs[g] {
				c.Fail("", fmt.Sprintf("%s: group %q = %v, the mean of its %d members is %v", text, g, s.Points[0].V, counts[g], want), det)
				return
			}
			if sf, _ := sums[g].Float64(); math.IsInf(sf, 0) {
				c.Count("avg_groups_with_overflowing_sum", 1)
				c.Nontrivial(fmt.Sprintf("bigavg|%d|%s", c.Idx, g))
			}
		}
	})
	r.Require("avg_groups_with_overflowing_sum", 50)
	r.Require("avg_groups_with_infinite_members", 30)

	// stdvar / stddev over groups whose members are large next to their spread (unix times, byte counters)
	// or equal fractions that have no exact binary form: the variance of finite inputs is a non-negative
	// number, the deviation its root (never NaN), and both are the two-pass values computed exactly
	r.Phase("spread", r.N(400, 40000), func(c *vk.Case) {
		rng := c.Rng
		var recs []Rec
		used := map[string]bool{}
		kind := c.Idx % 3
		base := vk.Pick(rng, []string{"1700000000", "1000000000", "1000000000000", "4102444800", "65536000", "9007199254740000"})
		frac := vk.Pick(rng, []string{"0.1", "0.7", "1.1", "3.3", "0.3", "100.01", "1e-7", "2.2e5"})
		for i := 0; i < rng.Range(3, 9); i++ {
			l := map[string]string{"job": "j", "a": vk.Pick(rng, []string{"x", "y"}), "b": vk.Pick(rng, []string{"p", "q", "r", "s", "t", "u"})}
			if used[labelKey(l)] {
				continue
			}
			used[labelKey(l)] = true
			var v string
			switch kind {
			case 0: // a large common part, a small spread
				v = base[:len(base)-2] + fmt.Sprintf("%02d", rng.Intn(30))
			case 1: // all members equal
				v = frac
			default: // equal but for one
				v = frac
				if i == 0 {
					v = "0.5"
				}
			}
			recs = append(recs, Rec{TS: metricT0 + 5e8 + int64(rng.Intn(3000))*1e6, Line: "v=" + v, Labels: l})
		}
		sortRecs(recs)
		env := &MEnv{Recs: recs, Msg: env0.Msg, UnwrapKeeps: env0.UnwrapKeeps, CmpFalse: env0.CmpFalse, CmpFalseBool: env0.CmpFalseBool}
		leaf := c11Leaf()
		op := vk.Pick(rng, []string{"stdvar", "stddev"})
		byA := rng.Bool()
		text := op + "(" + leaf.Text() + ")"
		if byA {
			text = op + " by (a) (" + leaf.Text() + ")"
		}
		T := metricT0 + 4e9
		res, err := evalQuery(&MemQuerier{Recs: recs, ErrAfter: -1}, text, EvalP{Start: T, End: T})
		c.Eval(1)
		det := map[string]any{"query": text, "records": recs, "result": res}
		if err != nil {
			c.Fail("", "query failed: "+text+": "+err.Error(), det)
			return
		}
		members := map[string][]float64{}
		for _, sv := range leaf.Eval(env, T).M {
			g := ""
			if byA {
				g = sv.L["a"]
			}
			members[g] = append(members[g], sv.V)
		}
		if len(res.Series) != len(members) {
			c.Fail("", fmt.Sprintf("%s: %d series, expected %d groups", text, len(res.Series), len(members)), det)
			return
		}
		for _, s := range res.Series {
			g := s.Labels["a"]
			xs := members[g]
			if len(xs) == 0 || len(s.Points) != 1 {
				c.Fail("", fmt.Sprintf("%s: unexpected series %v", text, s.Labels), det)
				return
			}
			// exact two-pass variance
			prec := uint(400)
			sum := new(big.Float).SetPrec(prec)
			for _, x := range xs {
				sum.Add(sum, new(big.Float).SetPrec(prec).SetFloat64(x))
			}
			n := new(big.Float).SetPrec(prec).SetInt64(int64(len(xs)))
			mean := new(big.Float).SetPrec(prec).Quo(sum, n)
			ss := new(big.Float).SetPrec(prec)
			maxDev := 0.0
			for _, x := range xs {
				d := new(big.Float).SetPrec(prec).Sub(new(big.Float).SetPrec(prec).SetFloat64(x), mean)
				if df, _ := d.Float64(); math.Abs(df) > maxDev {
					maxDev = math.Abs(df)
				}
				ss.Add(ss, new(big.Float).SetPrec(prec).Mul(d, d))
			}
			want, _ := new(big.Float).SetPrec(prec).Quo(ss, n).Float64()
			maxAbs := 0.0
			for _, x := range xs {
				maxAbs = math.Max(maxAbs, math.Abs(x))
			}
			// what float64 arithmetic may cost a careful one-pass or two-pass computation: the mean is only
			// known to an ulp of the members, which moves every deviation by that much
			ulp := math.Nextafter(maxAbs, math.Inf(1)) - maxAbs
			tol := 1e-9*want + 16*maxDev*ulp + ulp*ulp
			if op == "stddev" {
				if want > 0 {
					tol = tol/(2*math.Sqrt(want)) + 1e-9*math.Sqrt(want)
				} else {
					tol = math.Sqrt(tol)
				}
				want = math.Sqrt(want)
			}
			got := s.Points[0].V
			if math.IsNaN(got) || got < 0 || math.Abs(got-want) > tol {
				c.Fail("", fmt.Sprintf("%s: group %q = %v, the %s of its %d members %v is %v", text, g, got, op, len(xs), xs, want), det)
				return
			}
			if len(xs) >= 2 {
				c.Count("spread_groups_checked", 1)
				c.Nontrivial(fmt.Sprintf("spread|%d|%s", c.Idx, g))
			}
		}
	})
	r.Require("spread_groups_checked", 200)
	r.Require("large_vectors_over_500_groups", 10)

	// input vectors with NaN members (unwrap of "NaN", which ParseFloat accepts). NaN has no rank, so only
	// what every placement of NaN agrees on is demanded: top-k/bottom-k return min(k, n) series of the
	// group, each an input series with its value and labels, and the non-NaN series among them are the
	// best non-NaN series of the group. The input vector is the engine's own result for the leaf.
	r.Phase("nanrank", r.N(600, 80000), func(c *vk.Case) {
		rng := c.Rng
		var recs []Rec
		used := map[string]bool{}
		val := 0
		nn := 0
		for i := 0; i < rng.Range(2, 9); i++ {
			l := map[string]string{"job": "j", "a": vk.Pick(rng, []string{"x", "y"}), "b": vk.Pick(rng, []string{"p", "q", "r", "s", "t"})}
			if used[labelKey(l)] {
				continue
			}
			used[labelKey(l)] = true
			val += rng.Range(1, 9)
			v := fmt.Sprint(val - 12)
			if rng.Chance(1, 3) {
				v = "NaN"
				nn++
			}
			recs = append(recs, Rec{TS: metricT0 + 5e8 + int64(rng.Intn(3000))*1e6, Line: "v=" + v, Labels: l})
		}
		sortRecs(recs)
		leaf := c11Leaf().Text()
		op := vk.Pick(rng, []string{"topk", "bottomk"})
		k := vk.Pick(rng, []int{1, 2, 3, len(recs), len(recs) + 1})
		byA := rng.Bool()
		text := fmt.Sprintf("%s(%d, %s)", op, k, leaf)
		if byA {
			text = fmt.Sprintf("%s by (a) (%d, %s)", op, k, leaf)
		}
		if rng.Chance(1, 4) {
			text = "count(" + text + ")"
		}
		T := metricT0 + 4e9
		in, err := evalQuery(&MemQuerier{Recs: recs, ErrAfter: -1}, leaf, EvalP{Start: T, End: T})
		res, err2 := evalQuery(&MemQuerier{Recs: recs, ErrAfter: -1}, text, EvalP{Start: T, End: T})
		c.Eval(2)
		det := map[string]any{"query": text, "records": recs, "input_vector": in, "result": res}
		if err != nil || err2 != nil {
			c.Fail("", fmt.Sprintf("query failed: %s: %v %v", text, err, err2), det)
			return
		}
		if len(in.Series) != len(recs) {
			c.Fail("", fmt.Sprintf("%s: %d series for %d records with distinct label sets", leaf, len(in.Series), len(recs)), det)
			return
		}
		type member struct {
			v   float64
			key string
		}
		groups := map[string][]member{}
		input := map[string]float64{}
		for _, sr := range in.Series {
			g := ""
			if byA {
				g = sr.Labels["a"]
			}
			groups[g] = append(groups[g], member{sr.Points[0].V, labelKey(sr.Labels)})
			input[labelKey(sr.Labels)] = sr.Points[0].V
		}
		wantTotal := 0
		for _, ms := range groups {
			wantTotal += min(k, len(ms))
		}
		if strings.HasPrefix(text, "count(") {
			if len(res.Series) != 1 || res.Series[0].Points[0].V != float64(wantTotal) {
				c.Fail("", fmt.Sprintf("%s: result %v, the groups hold min(k,n) = %d series in total", text, res.Series, wantTotal), det)
				return
			}
		} else {
			got := map[string][]member{}
			for _, sr := range res.Series {
				lk := labelKey(sr.Labels)
				iv, ok := input[lk]
				v := sr.Points[0].V
				if !ok || !(iv == v || (math.IsNaN(iv) && math.IsNaN(v))) {
					c.Fail("", fmt.Sprintf("%s: returned series %s = %v is not an input series with its value (input: %v, present %v)", text, lk, v, iv, ok), det)
					return
				}
				g := ""
				if byA {
					g = sr.Labels["a"]
				}
				got[g] = append(got[g], member{v, lk})
			}
			for g, ms := range groups {
				if len(got[g]) != min(k, len(ms)) {
					c.Fail("", fmt.Sprintf("%s: group %q returned %d series, it has %d members", text, g, len(got[g]), len(ms)), det)
					return
				}
				var nums []float64
				for _, m := range ms {
					if !math.IsNaN(m.v) {
						nums = append(nums, m.v)
					}
				}
				sort.Float64s(nums)
				if op == "topk" {
					slices.Reverse(nums)
				}
				var gotNums []float64
				for _, m := range got[g] {
					if !math.IsNaN(m.v) {
						gotNums = append(gotNums, m.v)
					}
				}
				sort.Float64s(gotNums)
				if op == "topk" {
					slices.Reverse(gotNums)
				}
				for i, v := range gotNums {
					if nums[i] != v {
						c.Fail("", fmt.Sprintf("%s: group %q returns the numbers %v; wherever NaN is ranked, the numbers returned must be the best of %v", text, g, gotNums, nums), det)
						return
					}
				}
			}
		}
		c.Count("nan_rank_checks", 1)
		if nn > 0 {
			c.Count("vectors_with_nan_members", 1)
			c.Nontrivial(fmt.Sprintf("nanrank|%d|%s", c.Idx, text))
		}
	})
	r.Require("vectors_with_nan_members", 200)

	// labels that are not strings inside the engine: `| json` keeps numbers and booleans typed. Groups
	// and their values are counted here from the log lines themselves.
	r.Phase("typed", r.N(400, 60000), func(c *vk.Case) {
		rng := c.Rng
		type row struct{ status, ok, lat, svc string }
		var recs []Rec
		var rows []row
		for i := 0; i < rng.Range(3, 14); i++ {
			rw := row{vk.Pick(rng, []string{"200", "404", "500", "-1"}), vk.Pick(rng, []string{"true", "false"}), vk.Pick(rng, []string{"0.5", "1.5", "2.25"}), vk.Pick(rng, []string{"a", "b"})}
			rows = append(rows, rw)
			recs = append(recs, Rec{TS: metricT0 + 5e8 + int64(i)*1e6, Labels: map[string]string{"job": "j"},
				Line: fmt.Sprintf(`{"status":%s,"ok":%s,"lat":%s,"svc":%q,"n":%d}`, rw.status, rw.ok, rw.lat, rw.svc, i)})
		}
		// lines that fail | json carry __error__ (and none of the four labels): they belong to the group
		// of series lacking the by-labels, failed or not
		broken := 0
		if rng.Chance(1, 3) {
			broken = rng.Range(1, 3)
			for i := 0; i < broken; i++ {
				recs = append(recs, Rec{TS: metricT0 + 6e8 + int64(i)*1e6, Labels: map[string]string{"job": "j"}, Line: vk.Pick(rng, []string{"plain text", `{"status":`, "GET / 200"})})
			}
			sortRecs(recs)
			c.Count("typed_cases_with_failed_lines", 1)
		}
		names := []string{"status", "ok", "lat", "svc"}
		by := vk.Subset(rng, names)
		if len(by) == 0 {
			by = []string{"status"}
		}
		inner := fmt.Sprintf(`sum by (%s) (count_over_time({job="j"} | json [4s]))`, strings.Join(by, ", "))
		text := inner
		variant := rng.Intn(4)
		if broken > 0 && variant == 0 {
			variant = 1 // without (...) would retain the failure labels
		}
		switch variant {
		case 0:
			text = fmt.Sprintf(`sum without (%s) (count_over_time({job="j"} | json [4s]))`, strings.Join(append([]string{"msg", "n", "job"}, complement(names, by)...), ", "))
		case 1:
			text = "topk(100, " + inner + ")"
		case 2:
			text = "max by (" + strings.Join(by, ", ") + ") (" + inner + ")"
		}
		T := metricT0 + 4e9
		res, err := evalQuery(&MemQuerier{Recs: recs, ErrAfter: -1}, text, EvalP{Start: T, End: T})
		c.Eval(1)
		det := map[string]any{"query": text, "records": recs, "result": res}
		if err != nil {
			c.Fail("", "query failed: "+text+": "+err.Error(), det)
			return
		}
		want := map[string]float64{}
		for _, rw := range rows {
			l := map[string]string{}
			for _, k := range by {
				l[k] = map[string]string{"status": rw.status, "ok": rw.ok, "lat": rw.lat, "svc": rw.svc}[k]
			}
			want[labelKey(l)]++
		}
		if broken > 0 {
			want[labelKey(map[string]string{})] += float64(broken)
		}
		got := map[string]float64{}
		for _, sr := range res.Series {
			got[labelKey(sr.Labels)] = sr.Points[0].V
		}
		if len(got) != len(res.Series) || fmt.Sprint(got) != fmt.Sprint(want) {
			det["expected"] = want
			c.Fail("", fmt.Sprintf("%s: groups %v, the lines give %v", text, got, want), det)
			return
		}
		c.Count("typed_label_groupings", 1)
		if len(want) >= 2 {
			c.Nontrivial(fmt.Sprintf("typed|%d|%s", c.Idx, text))
		}
	})
	r.Require("typed_label_groupings", 300)

	r.Require("distinct_nontrivial", 800)
	r.Require("sort_orders_checked", 100)
	r.Require("depth:3", 200)
}

func shapeSummary(e MExpr) string {
	if va, ok := e.(*VecAgg); ok {
		g := "nogroup"
		if va.Grouped {
			if va.Without {
				g = "without"
			} else {
				g = "by"
			}
			if len(va.Group) == 0 {
				g += "()"
			}
		}
		return va.Op + "/" + g
	}
	return "leaf"
}

func complement(all, part []string) []string {
	var out []string
	for _, a := range all {
		if !slices.Contains(part, a) {
			out = append(out, a)
		}
	}
	return out
}

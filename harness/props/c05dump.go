//go:build verif

package props

import (
	"fmt"
	"regexp"
	"sort"
	"strconv"
	"strings"

	"github.com/tdakkota/docker-logql/internal/logql"
)

// dumpExpr renders the parser's AST as a canonical S-expression. Parentheses nodes are transparent;
// chains of one logical operator inside a label filter are flattened (their associativity carries
// no meaning); compiled regexes are identified by the source text kept beside them.

// reProbes: strings on which a compiled regex is observed; how the implementation anchors a label
// regex (`^(?:re)$`, `\A..\z`, ...) is its own business, what it matches is not.
var reProbes = []string{"", "a", "ab", "abc", "x", "xy", "GET", "^GET$", "err", "ERR", "error", "123", "12.5", "a.b", "a\\b", "\"q\"", "aXb", "xay", "y", "yy", "xyxy", " ", "Z9"}

func reSignature(re *regexp.Regexp) string {
	if re == nil {
		return "nil"
	}
	var sb strings.Builder
	for _, p := range reProbes {
		if re.MatchString(p) {
			sb.WriteByte('1')
		} else {
			sb.WriteByte('0')
		}
	}
	return sb.String()
}

// wantSignature: what a regex written as src must match; full=true for label matchers (whole value).
func wantSignature(src string, full bool) string {
	re := compileUser(src)
	var sb strings.Builder
	for _, p := range reProbes {
		ok := false
		if full {
			ok = fullMatch(re, p)
		} else {
			ok = re.MatchString(p)
		}
		if ok {
			sb.WriteByte('1')
		} else {
			sb.WriteByte('0')
		}
	}
	return sb.String()
}

func binOpName(op logql.BinOp) string {
	switch op {
	case logql.OpAnd:
		return "and"
	case logql.OpOr:
		return "or"
	case logql.OpUnless:
		return "unless"
	case logql.OpAdd:
		return "+"
	case logql.OpSub:
		return "-"
	case logql.OpMul:
		return "*"
	case logql.OpDiv:
		return "/"
	case logql.OpMod:
		return "%"
	case logql.OpPow:
		return "^"
	case logql.OpEq:
		return "eq"
	case logql.OpNotEq:
		return "neq"
	case logql.OpRe:
		return "re"
	case logql.OpNotRe:
		return "nre"
	case logql.OpGt:
		return "gt"
	case logql.OpGte:
		return "gte"
	case logql.OpLt:
		return "lt"
	case logql.OpLte:
		return "lte"
	}
	return fmt.Sprintf("op%d", int(op))
}

func dumpMatcher(m logql.LabelMatcher) string {
	s := fmt.Sprintf("m(%s,%s,%q", m.Label, binOpName(m.Op), m.Value)
	if m.Op == logql.OpRe || m.Op == logql.OpNotRe {
		if m.Re == nil {
			s += ",re=nil"
		} else {
			s += ",re=" + reSignature(m.Re)
		}
	} else if m.Re != nil {
		s += ",re=unexpected"
	}
	return s + ")"
}

func dumpSel(sel logql.Selector) string {
	parts := make([]string, len(sel.Matchers))
	for i, m := range sel.Matchers {
		parts[i] = dumpMatcher(m)
	}
	return "sel[" + strings.Join(parts, " ") + "]"
}

func dumpLabels(ls []logql.Label) string {
	parts := make([]string, len(ls))
	for i, l := range ls {
		parts[i] = string(l)
	}
	return "[" + strings.Join(parts, ",") + "]"
}

func flattenPred(p logql.LabelPredicate, op logql.BinOp, out *[]string) {
	if b, ok := p.(*logql.LabelPredicateBinOp); ok && b.Op == op {
		flattenPred(b.Left, op, out)
		flattenPred(b.Right, op, out)
		return
	}
	*out = append(*out, dumpPred(p))
}

func dumpPred(p logql.LabelPredicate) string {
	switch p := p.(type) {
	case *logql.LabelPredicateBinOp:
		var parts []string
		flattenPred(p, p.Op, &parts)
		return binOpName(p.Op) + "(" + strings.Join(parts, " ") + ")"
	case *logql.LabelPredicateParen:
		return "paren(" + dumpPred(p.X) + ")"
	case *logql.LabelMatcher:
		return dumpMatcher(*p)
	case *logql.DurationFilter:
		return fmt.Sprintf("dur(%s,%s,%d)", p.Label, binOpName(p.Op), int64(p.Value))
	case *logql.BytesFilter:
		return fmt.Sprintf("bytes(%s,%s,%d)", p.Label, binOpName(p.Op), p.Value)
	case *logql.NumberFilter:
		return fmt.Sprintf("num(%s,%s,%s)", p.Label, binOpName(p.Op), fnum(p.Value))
	case *logql.IPFilter:
		return fmt.Sprintf("ipf(%s,%s,%q)", p.Label, binOpName(p.Op), p.Value)
	}
	return fmt.Sprintf("?pred(%T)", p)
}

func dumpExtraction(labels []logql.Label, exprs []logql.LabelExtractionExpr) string {
	parts := []string{"labels" + dumpLabels(labels)}
	var es []string
	for _, e := range exprs {
		es = append(es, fmt.Sprintf("%s=%q", e.Label, e.Expr))
	}
	return strings.Join(parts, " ") + " exprs[" + strings.Join(es, ",") + "]"
}

func dumpStage(s logql.PipelineStage) string {
	switch s := s.(type) {
	case *logql.LineFilter:
		re := ""
		if s.Op == logql.OpRe || s.Op == logql.OpNotRe {
			if s.Re == nil {
				re = ",re=nil"
			} else {
				re = ",re=" + reSignature(s.Re)
			}
		} else if s.Re != nil {
			re = ",re=unexpected"
		}
		return fmt.Sprintf("lf(%s,%q,ip=%v%s)", binOpName(s.Op), s.Value, s.IP, re)
	case *logql.JSONExpressionParser:
		return "json(" + dumpExtraction(s.Labels, s.Exprs) + ")"
	case *logql.LogfmtExpressionParser:
		return "logfmt(" + dumpExtraction(s.Labels, s.Exprs) + ")"
	case *logql.RegexpLabelParser:
		var ms []string
		for i, l := range s.Mapping {
			ms = append(ms, fmt.Sprintf("%d:%s", i, l))
		}
		sort.Strings(ms)
		src := "nil"
		if s.Regexp != nil {
			src = strconv.Quote(s.Regexp.String())
		}
		return "regexp(" + src + ",map[" + strings.Join(ms, ",") + "])"
	case *logql.PatternLabelParser:
		return fmt.Sprintf("pattern(%q)", s.Pattern)
	case *logql.UnpackLabelParser:
		return "unpack"
	case *logql.LineFormat:
		return fmt.Sprintf("line_format(%q)", s.Template)
	case *logql.DecolorizeExpr:
		return "decolorize"
	case *logql.LabelFilter:
		return "filter(" + dumpPred(s.Pred) + ")"
	case *logql.LabelFormatExpr:
		var rs, vs []string
		for _, r := range s.Labels {
			// "label_format dst=src" renames src to dst
			rs = append(rs, fmt.Sprintf("%s<-%s", r.To, r.Label))
		}
		for _, v := range s.Values {
			vs = append(vs, fmt.Sprintf("%s=%q", v.Label, v.Template))
		}
		return "label_format(renames[" + strings.Join(rs, ",") + "] templates[" + strings.Join(vs, ",") + "])"
	case *logql.DropLabelsExpr:
		return "drop(" + dumpLabels(s.Labels) + " " + dumpMatchers(s.Matchers) + ")"
	case *logql.KeepLabelsExpr:
		return "keep(" + dumpLabels(s.Labels) + " " + dumpMatchers(s.Matchers) + ")"
	case *logql.DistinctFilter:
		return "distinct(" + dumpLabels(s.Labels) + ")"
	}
	return fmt.Sprintf("?stage(%T)", s)
}

func dumpMatchers(ms []logql.LabelMatcher) string {
	parts := make([]string, len(ms))
	for i, m := range ms {
		parts[i] = dumpMatcher(m)
	}
	return "[" + strings.Join(parts, " ") + "]"
}

func dumpPipeline(st []logql.PipelineStage) string {
	parts := make([]string, len(st))
	for i, s := range st {
		parts[i] = dumpStage(s)
	}
	return "stages[" + strings.Join(parts, " ") + "]"
}

func dumpGrouping(g *logql.Grouping) string {
	if g == nil {
		return "nogroup"
	}
	if g.Without {
		return "without" + dumpLabels(g.Labels)
	}
	return "by" + dumpLabels(g.Labels)
}

func rangeOpName(op logql.RangeOp) string  { return op.String() }
func vectorOpName(op logql.VectorOp) string { return op.String() }

func dumpExpr(e logql.Expr) string {
	switch e := e.(type) {
	case nil:
		return "nil"
	case *logql.ParenExpr:
		return dumpExpr(e.X)
	case *logql.LogExpr:
		return "log(" + dumpSel(e.Sel) + " " + dumpPipeline(e.Pipeline) + ")"
	case *logql.RangeAggregationExpr:
		s := "range(" + rangeOpName(e.Op)
		if e.Parameter != nil {
			s += " param=" + fnum(*e.Parameter)
		} else {
			s += " param=none"
		}
		r := e.Range
		s += " " + dumpSel(r.Sel) + fmt.Sprintf(" range=%d", int64(r.Range))
		if r.Offset != nil {
			s += fmt.Sprintf(" offset=%d", int64(r.Offset.Duration))
		} else {
			s += " offset=none"
		}
		s += " " + dumpPipeline(r.Pipeline)
		if r.Unwrap != nil {
			s += fmt.Sprintf(" unwrap(%q,%s,%s)", r.Unwrap.Op, r.Unwrap.Label, dumpMatchers(r.Unwrap.Filters))
		} else {
			s += " unwrap=none"
		}
		return s + " " + dumpGrouping(e.Grouping) + ")"
	case *logql.VectorAggregationExpr:
		s := "vecagg(" + vectorOpName(e.Op)
		if e.Parameter != nil {
			s += " param=" + strconv.Itoa(*e.Parameter)
		} else {
			s += " param=none"
		}
		return s + " " + dumpGrouping(e.Grouping) + " " + dumpExpr(e.Expr) + ")"
	case *logql.LiteralExpr:
		return "lit(" + fnum(e.Value) + ")"
	case *logql.VectorExpr:
		return "vector(" + fnum(e.Value) + ")"
	case *logql.LabelReplaceExpr:
		re := reSignature(e.Re)
		return fmt.Sprintf("label_replace(%s,%q,%q,%q,%q,re=%s)", dumpExpr(e.Expr), e.DstLabel, e.Replacement, e.SrcLabel, e.Regex, re)
	case *logql.BinOpExpr:
		m := e.Modifier
		mod := fmt.Sprintf("mod(bool=%v,%q,%s,%q,%s)", m.ReturnBool, m.Op, dumpLabels(m.OpLabels), m.Group, dumpLabels(m.Include))
		return "bin(" + binOpName(e.Op) + " " + mod + " " + dumpExpr(e.Left) + " " + dumpExpr(e.Right) + ")"
	}
	return fmt.Sprintf("?expr(%T)", e)
}

//go:build verif

package props

import (
	"fmt"
	"net/url"
	"regexp"
	"strconv"
	"strings"
	"time"
	"unicode/utf8"

	"github.com/tdakkota/docker-logql/internal/logql"
	"github.com/tdakkota/docker-logql/internal/zzverif/vk"
)

func init() {
	register("C07", "exploration", 8*time.Minute, 60*time.Minute, runC07)
}

var (
	c07Labels = []string{"a", "b", "c", "d", "env", "c_d"}
	c07Vals   = []string{"prod", "dev", "", "Prod Uction", "a,b", "ünï cødé", "with \"q\"", "x=1", "aaa", "  pad  ", "10.0.0.5", "p1", "xprodx", "150ms", "10KB", "a\\b", "{{.a}}", "$1", "%41"}
)

func tl(e *Ent, k string) string { return e.L[k] }

func alignL(n int, s string) string {
	rs := []rune(s)
	if len(rs) > n {
		return string(rs[:n])
	}
	return s + strings.Repeat(" ", n-len(rs))
}

func alignR(n int, s string) string {
	rs := []rune(s)
	if len(rs) > n {
		return string(rs[len(rs)-n:])
	}
	return strings.Repeat(" ", n-len(rs)) + s
}

// genTmpl draws a template from the family the harness can evaluate itself.
// allowTyped: the duration/bytes conversions are only drawn when the labels still hold pool values
// (whose parse status is tabulated), i.e. in the first stage of a pipeline.
func genTmpl(r *vk.RNG, allowFail, allowTyped bool) Tmpl {
	l1 := vk.Pick(r, append([]string{"nosuch"}, c07Labels...))
	l2 := vk.Pick(r, c07Labels)
	ok := func(f func(e *Ent) string) func(e *Ent) (string, bool) {
		return func(e *Ent) (string, bool) { return f(e), true }
	}
	if allowFail && r.Chance(1, 6) {
		type ft struct {
			text string
			eval func(e *Ent) (string, bool)
		}
		fails := []ft{
			{`{{ unixToTime "x" }}`, func(e *Ent) (string, bool) { return "", false }},
			{`prefix {{ div 1 0 }}`, func(e *Ent) (string, bool) { return "", false }},
			{`{{ regexReplaceAll "(" .` + l2 + ` "" }}`, func(e *Ent) (string, bool) { return "", false }},
			{`{{ .` + l2 + ` | duration }}`, func(e *Ent) (string, bool) {
				d, known := durValues[e.L[l2]]
				if !known {
					return "", false
				}
				return fmt.Sprint(d.Seconds()), true
			}},
			{`{{ .` + l2 + ` | bytes }}`, func(e *Ent) (string, bool) {
				b, known := bytValues[e.L[l2]]
				if !known {
					return "", false
				}
				return fmt.Sprint(float64(b)), true
			}},
			{`{{ urldecode "%zz" }}`, func(e *Ent) (string, bool) { return "", false }},
			// failures raised by the template executor itself, not by a function returning an error
			{`{{ alignLeft .` + l2 + ` __line__ }}`, func(e *Ent) (string, bool) { return "", false }},
			{`{{ .` + l2 + `.name }}`, func(e *Ent) (string, bool) { return "", false }},
			{`x{{ repeat .` + l1 + ` "-" }}`, func(e *Ent) (string, bool) { return "", false }},
			// text is emitted BEFORE a data-dependent failure: some records fail, others succeed
			{`<{{ .` + l1 + ` }}:{{ index .` + l2 + ` 3 }}>`, func(e *Ent) (string, bool) {
				v := e.L[l2]
				if len(v) <= 3 {
					return "", false
				}
				return "<" + e.L[l1] + ":" + strconv.Itoa(int(v[3])) + ">", true
			}},
			{`pre-{{ .` + l2 + ` | duration }}-post`, func(e *Ent) (string, bool) {
				d, known := durValues[e.L[l2]]
				if !known {
					return "", false
				}
				return "pre-" + fmt.Sprint(d.Seconds()) + "-post", true
			}},
			{`{{ index .` + l2 + ` 9999999 }}`, func(e *Ent) (string, bool) { return "", false }},
		}
		f := vk.Pick(r, fails)
		for !allowTyped && (strings.Contains(f.text, "| duration") || strings.Contains(f.text, "| bytes")) {
			f = vk.Pick(r, fails)
		}
		return Tmpl{Text: f.text, Eval: f.eval, Fails: true}
	}
	switch r.Intn(32) {
	// multi-line templates as an editor with CRLF line ends writes them: the line breaks are literal text of the template
	case 30:
		return Tmpl{Text: "{{ ." + l1 + " }}:\r\n{{ __line__ }}", Eval: ok(func(e *Ent) string { return tl(e, l1) + ":\r\n" + e.Line })}
	case 31:
		sep := vk.Pick(r, []string{"\r", "\r\n", "\n", "\t", "\r\r\n", " \r "})
		return Tmpl{Text: "<{{ ." + l1 + " }}" + sep + "{{ ." + l2 + " }}>" + sep, Eval: ok(func(e *Ent) string { return "<" + tl(e, l1) + sep + tl(e, l2) + ">" + sep })}
	// the root variable $ is the label set as well; variables carry values between actions
	case 26:
		return Tmpl{Text: "{{ $." + l1 + " }}", Eval: ok(func(e *Ent) string { return tl(e, l1) })}
	case 27:
		return Tmpl{Text: `{{ index $ "` + l1 + `" }}|{{ $.` + l2 + ` }}`, Eval: ok(func(e *Ent) string { return tl(e, l1) + "|" + tl(e, l2) })}
	case 28:
		return Tmpl{Text: `{{ $l := __line__ }}{{ printf "%s [%s]" $l $.` + l1 + ` }}`, Eval: ok(func(e *Ent) string { return e.Line + " [" + tl(e, l1) + "]" })}
	case 29:
		return Tmpl{Text: `{{ $v := .` + l1 + ` }}<{{ $v }}>{{ $.` + l2 + ` }}`, Eval: ok(func(e *Ent) string { return "<" + tl(e, l1) + ">" + tl(e, l2) })}
	case 0:
		s := "lit-" + strconv.Itoa(r.Intn(100))
		return Tmpl{Text: s, Eval: ok(func(e *Ent) string { return s })}
	case 1:
		return Tmpl{Text: "{{." + l1 + "}}", Eval: ok(func(e *Ent) string { return tl(e, l1) })}
	case 2:
		return Tmpl{Text: "{{." + l1 + "}}/{{ ." + l2 + " }}", Eval: ok(func(e *Ent) string { return tl(e, l1) + "/" + tl(e, l2) })}
	case 3:
		return Tmpl{Text: "{{ __line__ }}", Eval: ok(func(e *Ent) string { return e.Line })}
	case 4:
		return Tmpl{Text: "pre {{__line__}} post", Eval: ok(func(e *Ent) string { return "pre " + e.Line + " post" })}
	case 5:
		return Tmpl{Text: "{{ __timestamp__ | unixEpoch }}", Eval: ok(func(e *Ent) string { return strconv.FormatInt(floorDivSec(e.TS), 10) })}
	case 6:
		return Tmpl{Text: "{{ __timestamp__ | unixEpochMillis }}", Eval: ok(func(e *Ent) string { return strconv.FormatInt(e.TS/1e6, 10) })}
	case 7:
		return Tmpl{Text: "{{ unixEpochNanos __timestamp__ }}", Eval: ok(func(e *Ent) string { return strconv.FormatInt(e.TS, 10) })}
	case 8:
		return Tmpl{Text: "{{ ." + l1 + " | ToUpper }}", Eval: ok(func(e *Ent) string { return strings.ToUpper(tl(e, l1)) })}
	case 9:
		return Tmpl{Text: "{{ ToLower ." + l1 + " }}", Eval: ok(func(e *Ent) string { return strings.ToLower(tl(e, l1)) })}
	case 10:
		n := vk.Pick(r, []int{-1, 1, 2})
		return Tmpl{Text: fmt.Sprintf(`{{ Replace .%s "a" "X" %d }}`, l1, n), Eval: ok(func(e *Ent) string { return strings.Replace(tl(e, l1), "a", "X", n) })}
	case 11:
		return Tmpl{Text: "{{ TrimSpace ." + l1 + " }}", Eval: ok(func(e *Ent) string { return strings.TrimSpace(tl(e, l1)) })}
	case 12:
		return Tmpl{Text: `{{ Trim .` + l1 + ` "xp " }}`, Eval: ok(func(e *Ent) string { return strings.Trim(tl(e, l1), "xp ") })}
	case 13:
		return Tmpl{Text: `{{ TrimPrefix .` + l1 + ` "pr" }}|{{ TrimSuffix .` + l2 + ` "d" }}`, Eval: ok(func(e *Ent) string {
			return strings.TrimPrefix(tl(e, l1), "pr") + "|" + strings.TrimSuffix(tl(e, l2), "d")
		})}
	case 14:
		re := regexp.MustCompile("([aeiou])")
		return Tmpl{Text: `{{ regexReplaceAll "([aeiou])" .` + l1 + ` "<$1>" }}`, Eval: ok(func(e *Ent) string { return re.ReplaceAllString(tl(e, l1), "<$1>") })}
	case 15:
		re := regexp.MustCompile("[0-9]+")
		return Tmpl{Text: `{{ regexReplaceAllLiteral "[0-9]+" .` + l1 + ` "$1" }}`, Eval: ok(func(e *Ent) string { return re.ReplaceAllLiteralString(tl(e, l1), "$1") })}
	case 16:
		re := regexp.MustCompile("a|o")
		return Tmpl{Text: `{{ count "a|o" .` + l1 + ` }}`, Eval: ok(func(e *Ent) string { return strconv.Itoa(len(re.FindAllStringIndex(tl(e, l1), -1))) })}
	case 17:
		return Tmpl{Text: "{{ urlencode ." + l1 + " }}", Eval: ok(func(e *Ent) string { return url.QueryEscape(tl(e, l1)) })}
	case 18:
		n := r.Intn(8)
		return Tmpl{Text: fmt.Sprintf("[{{ alignLeft %d .%s }}]", n, l1), Eval: ok(func(e *Ent) string { return "[" + alignL(n, tl(e, l1)) + "]" })}
	case 19:
		n := r.Intn(8)
		return Tmpl{Text: fmt.Sprintf("[{{ alignRight %d .%s }}]", n, l1), Eval: ok(func(e *Ent) string { return "[" + alignR(n, tl(e, l1)) + "]" })}
	case 20:
		return Tmpl{Text: `{{ if eq .` + l1 + ` "prod" }}P{{ else }}N{{ end }}`, Eval: ok(func(e *Ent) string {
			if tl(e, l1) == "prod" {
				return "P"
			}
			return "N"
		})}
	case 21:
		return Tmpl{Text: `{{ .` + l1 + ` | default "dflt" }}`, Eval: ok(func(e *Ent) string {
			if tl(e, l1) == "" {
				return "dflt"
			}
			return tl(e, l1)
		})}
	case 22:
		return Tmpl{Text: `{{ add 40 2 }}-{{ .` + l1 + ` | lower }}`, Eval: ok(func(e *Ent) string { return "42-" + strings.ToLower(tl(e, l1)) })}
	case 23:
		return Tmpl{Text: `{{ len .` + l1 + ` }}`, Eval: ok(func(e *Ent) string { return strconv.Itoa(len(tl(e, l1))) })}
	case 24:
		return Tmpl{Text: `{{ printf "%q" .` + l1 + ` }}`, Eval: ok(func(e *Ent) string { return strconv.Quote(tl(e, l1)) })}
	default:
		return Tmpl{Text: `{{ .` + l1 + ` }} {{ __line__ | ToUpper }} {{ .` + l2 + ` }}`, Eval: ok(func(e *Ent) string { return tl(e, l1) + " " + strings.ToUpper(e.Line) + " " + tl(e, l2) })}
	}
}

var sgrSeqs = []string{"\x1b[31m", "\x1b[0m", "\x1b[1;32m", "\x1b[38;5;200m", "\x1b[m", "\x1b[4m", "\x1b[0;1;34m", "\x1b[39;49m"}
// the same with the 8-bit CSI introducer (U+009B) in place of ESC [ — ECMA-48 allows both forms
var sgrSeqs8 = []string{"\u009b31m", "\u009b0m", "\u009b1;32m", "\u009b38;5;200m", "\u009bm", "\u009b0;1;34m"}
var plainSegs = []string{"hello", " ", "[INFO]", "m", "31m", "[", "error: x", "ünï", "100%", "a;b", "", "\t", "0m", "]", "(", "=>"}

// genColoured builds a line from plain segments and SGR colour sequences; returns (line, plain).
func genColoured(r *vk.RNG) (string, string) {
	var line, plain strings.Builder
	n := r.Range(1, 7)
	// per line: 7-bit introducers only, 8-bit only, or both
	pool := sgrSeqs
	switch r.Intn(4) {
	case 0:
		pool = sgrSeqs8
	case 1:
		pool = append(append([]string{}, sgrSeqs...), sgrSeqs8...)
	}
	for i := 0; i < n; i++ {
		if r.Bool() {
			line.WriteString(vk.Pick(r, pool))
		}
		seg := vk.Pick(r, plainSegs)
		line.WriteString(seg)
		plain.WriteString(seg)
	}
	if r.Bool() {
		line.WriteString(pool[1]) // reset
	}
	return line.String(), plain.String()
}

func genC07Records(r *vk.RNG, n int, coloured bool) *Dataset {
	d := &Dataset{Format: "plain", plainOf: map[string]string{}}
	for i := 0; i < n; i++ {
		labels := map[string]string{"app": "x"}
		for _, k := range c07Labels {
			if r.Chance(2, 3) {
				v := vk.Pick(r, c07Vals)
				labels[k] = v
			}
		}
		line := fmt.Sprintf("r%d %s %s", i, vk.Pick(r, genWords), vk.Pick(r, c07Vals))
		if coloured {
			cl, pl := genColoured(r)
			line = fmt.Sprintf("r%d ", i) + cl
			d.plainOf[line] = fmt.Sprintf("r%d ", i) + pl
		}
		d.Recs = append(d.Recs, Rec{TS: logT0 + int64(i+1)*1e9 + int64(r.Intn(1e6)), Line: line, Labels: labels})
	}
	if r.Chance(1, 3) {
		// all records from one source: they carry the same labels (and, in the storage, share one
		// resource), so a stage that rewrites a label must do so for each record afresh
		for i := 1; i < len(d.Recs); i++ {
			d.Recs[i].Labels = copyMap(d.Recs[0].Labels)
		}
	}
	return d
}

// extraLabels/extraVals: labels produced by a parser stage (e.g. numbers and booleans from | json)
func genNameOrMatchers(r *vk.RNG, extraLabels, extraVals []string) []nameOrMatcher {
	n := r.Range(1, 3)
	used := map[string]bool{}
	var out []nameOrMatcher
	for len(out) < n {
		k := vk.Pick(r, append(append([]string{"nosuch", "app"}, c07Labels...), extraLabels...))
		if used[k] {
			continue
		}
		used[k] = true
		if r.Chance(1, 3) {
			op := vk.Pick(r, allStrOps)
			v := vk.Pick(r, []string{"prod", "", "dev", "p.*", ".*", "x"})
			if op == logql.OpEq || op == logql.OpNotEq {
				v = vk.Pick(r, append(append([]string{}, c07Vals[:6]...), extraVals...))
			} else if len(extraVals) > 0 && r.Bool() {
				v = vk.Pick(r, []string{"2..", "4..|5..", "t.*", "[0-9.]+", "f.+"})
			}
			out = append(out, nameOrMatcher{M: &selMatcher{Label: k, Op: op, OpS: opText(op), Value: v}})
		} else {
			out = append(out, nameOrMatcher{Name: k})
		}
	}
	return out
}

// typedVals: values that parser-produced labels take (numbers, booleans as | json exposes them)
func typedVals(d *Dataset) []string {
	if len(d.Fields) == 0 {
		return nil
	}
	return []string{"200", "404", "500", "0", "-3", "1.5", "42", "true", "false", "info", "error"}
}

func genRewriteStage(r *vk.RNG, d *Dataset, allowFail, first bool) Stage {
	switch r.Intn(7) {
	case 0: // rename(s) over disjoint labels
		perm := r.Perm(len(c07Labels))
		k := r.Range(1, 3)
		pool := append([]string{}, c07Labels...)
		pool = append(pool, "fresh", "nosuch2")
		var pairs [][2]string
		for i := 0; i < k; i++ {
			src := c07Labels[perm[i]]
			dst := pool[(perm[i]+1+r.Intn(len(pool)-1))%len(pool)]
			if dst == src {
				dst = "fresh"
			}
			pairs = append(pairs, [2]string{dst, src})
		}
		// renames of one stage apply in order (`a=b, b=c` shifts); the parser rejects a repeated target
		seen := map[string]bool{}
		for i, p := range pairs {
			if seen[p[0]] {
				pairs = pairs[:i]
				break
			}
			seen[p[0]] = true
		}
		if r.Chance(1, 4) {
			// explicit shift / swap chains
			a, b, c3 := c07Labels[perm[0]], c07Labels[perm[1]], c07Labels[perm[2]]
			pairs = vk.Pick(r, [][][2]string{{{a, b}, {b, c3}}, {{a, b}, {b, a}}, {{b, a}, {c3, b}}, {{"fresh", a}, {a, b}, {b, c3}}})
		}
		return stRename(pairs)
	case 1:
		if r.Chance(1, 4) {
			// renames and a template in one stage, the renames written first: the template reads the
			// labels as the renames left them (source gone, destination set)
			perm := r.Perm(len(c07Labels))
			src, dst := c07Labels[perm[0]], c07Labels[perm[1]]
			pairs := [][2]string{{dst, src}}
			if r.Bool() {
				pairs = append(pairs, [2]string{"fresh", c07Labels[perm[2]]})
			}
			l := vk.Pick(r, []string{src, dst, dst, "fresh"})
			t := Tmpl{Text: "<{{ ." + l + " }}|{{ ." + src + " }}>", Eval: func(e *Ent) (string, bool) { return "<" + e.L[l] + "|" + e.L[src] + ">", true }}
			return stRenameThenTemplate(pairs, "out", t)
		}
		if r.Chance(1, 3) {
			// several templates in one stage, any of them may be the failing one
			k := r.Range(2, 3)
			dsts := []string{"out", "out2", "out3"}[:k]
			ts := make([]Tmpl, k)
			for i := range ts {
				ts[i] = genTmpl(r, allowFail, first)
			}
			return stLabelTemplates(dsts, ts)
		}
		return stLabelTemplate(vk.Pick(r, append([]string{"out"}, c07Labels...)), genTmpl(r, allowFail, first))
	case 2, 3:
		return stLineFormat(genTmpl(r, allowFail, first))
	case 4:
		return stDrop(genNameOrMatchers(r, d.Fields, typedVals(d)))
	case 5:
		return stKeep(genNameOrMatchers(r, d.Fields, typedVals(d)))
	default:
		return stDecolorize(d.strip)
	}
}

func runC07(r *vk.Run) {
	r.SetRule("records with label sets from an adversarial pool (empty, spaces, quotes, unicode, template-like text) and plain or SGR-coloured lines x pipelines of 1..3 rewriting stages " +
		"(label_format renames, label_format/line_format templates from a family the harness evaluates itself incl. __line__/__timestamp__ and run-time failing templates, drop/keep with names and value matchers, decolorize), optionally followed by a filter on the rewritten label/line; " +
		"evaluated by Engine.Eval and by per-stage expected-effect closures. non-trivial = distinct (records, pipeline) where at least one record's line or label set changes or is flagged.")
	r.Assume("one label_format stage is all-renames (applied in order, chains included), one template, or 2..3 templates writing fresh labels no template reads", "keep leaves __error__ labels undecided (Loki preserves them)", "templates only over valid UTF-8 label values", "| logfmt exposes keys under their own text (c.d and c_d are two labels)")
	msg, err := calibrateMsgLabel()
	if err != nil {
		r.Inconclusive(err.Error())
		return
	}
	r.SetExtra("calibrated_msg_label", msg)

	r.Phase("rewrite", r.N(6000, 1500000), func(c *vk.Case) {
		rng := c.Rng
		n := rng.Range(3, 12)
		coloured := rng.Chance(1, 4)
		ds := genC07Records(rng, n, coloured)
		q := LogQ{Sel: []selMatcher{{Label: "app", Op: logql.OpEq, OpS: "=", Value: "x"}}}
		if !coloured && rng.Chance(1, 4) {
			// labels of non-string type: numbers and booleans extracted by | json, then dropped / kept by value
			ds = genDataset(rng, "json", n, logT0)
			for i := range ds.Recs {
				ds.Recs[i].Labels["app"] = "x"
			}
			q.Stages = append(q.Stages, stJSONAll(ds.docOf))
			c.Count("typed_label_pipelines", 1)
		}
		if !coloured && len(q.Stages) == 0 && rng.Chance(1, 8) {
			// labels extracted by | logfmt keep their key text: c.d next to c_d, k-1 next to k_1. A
			// template reads the label it names, not a look-alike.
			ds.Format = "logfmt"
			ds.pairs = map[string][][2]string{}
			for i := range ds.Recs {
				pairs := [][2]string{{"id", fmt.Sprintf("r%d", i)}, {"c.d", vk.Pick(rng, c07Vals[:6])}}
				if rng.Chance(2, 3) {
					pairs = append(pairs, [2]string{"c_d", vk.Pick(rng, c07Vals[:6])})
				}
				if rng.Bool() {
					pairs = append(pairs, [2]string{"env-x", "dashed"}, [2]string{"env_x", "plain"})
				}
				vk.Shuffle(rng, pairs[1:])
				ds.Recs[i].Line = writeLogfmt(pairs)
				ds.pairs[ds.Recs[i].Line] = pairs
			}
			q.Stages = append(q.Stages, stLogfmtAll(ds.pairsOf))
			c.Count("logfmt_twin_key_pipelines", 1)
		}
		k := rng.Range(1, 3)
		unknown, undecided := 0, 0
		for i := 0; i < k; i++ {
			st := genRewriteStage(rng, ds, true, i == 0)
			if coloured && i == 0 {
				st = stDecolorize(ds.strip)
			}
			q.Stages = append(q.Stages, st)
		}
		if rng.Chance(1, 3) {
			// observe the rewritten state through a filter as well
			if rng.Bool() {
				ops := []string{"|=", "!="}
				if last := q.Stages[len(q.Stages)-1].Kind; last == "drop" || last == "keep" {
					// `drop a != "x"` would read as a value matcher of the drop list
					ops = []string{"|=", "|~"}
				}
				q.Stages = append(q.Stages, stLineFilter(vk.Pick(rng, ops), vk.Pick(rng, []string{"prod", "r1", "P", "lit-", " ", "X"})))
			} else {
				q.Stages = append(q.Stages, stLabelFilter(&Pred{Kind: "str", Label: vk.Pick(rng, append([]string{"out", "fresh"}, c07Labels...)), Op: vk.Pick(rng, []string{"=", "!=", "=~", "!~"}), Val: vk.Pick(rng, []string{"prod", "", "p.*", ".+"})}, &unknown))
			}
		}
		_ = undecided
		for _, rec := range ds.Recs {
			for _, v := range rec.Labels {
				if !utf8.ValidString(v) {
					return
				}
			}
		}
		text := q.Text()
		model := q.RunModel(ds.Recs, msg)
		if unknown > 0 {
			c.Count("discarded_undecided_error_state", 1)
			return
		}
		mq := &MemQuerier{Recs: ds.Recs, ErrAfter: -1}
		res, err := evalQuery(mq, text, logRangeParams(n))
		c.Eval(1)
		det := func() map[string]any {
			return map[string]any{"query": text, "records": ds.Recs, "expected": model, "result": res}
		}
		if err != nil {
			c.Fail("", fmt.Sprintf("query failed: %s: %v", text, err), det())
			return
		}
		got, dup := flattenStreams(res)
		if dup != "" {
			c.Fail("", dup, det())
			return
		}
		if m := compareEntries(model, got, true); m != "" {
			key := ""
			c.Fail(key, text+": "+m, det())
			return
		}
		if c.Idx%4 == 1 {
			// every record twice (same instant, same bytes, same labels): rewriting stages may make lines and
			// label sets equal, they never make two records one
			var twice []Rec
			for _, rec := range ds.Recs {
				twice = append(twice, rec, rec)
			}
			res2, err := evalQuery(&MemQuerier{Recs: twice, ErrAfter: -1}, text, logRangeParams(n))
			c.Eval(1)
			n1, n2 := 0, 0
			for _, st := range res.Streams {
				n1 += len(st.Entries)
			}
			for _, st := range res2.Streams {
				n2 += len(st.Entries)
			}
			if err != nil || n2 != 2*n1 {
				d := det()
				d["result_over_doubled_records"] = res2
				c.Fail("", fmt.Sprintf("%s: %d entries for the records, %d for every record twice (err=%v)", text, n1, n2, err), d)
				return
			}
			c.Count("doubled_record_evaluations", 1)
		}
		if c.Idx%3 == 0 {
			// the same pipeline below a range aggregation (model-free): the metric path runs the stages the log
			// path runs, so bytes_over_time adds up the lines the log query renders and count_over_time counts
			// them, per label set (the failure labels of a failing template included)
			wantBytes, wantCount := map[string]float64{}, map[string]float64{}
			for _, st := range res.Streams {
				k := labelKey(st.Labels)
				for _, e := range st.Entries {
					wantBytes[k] += float64(len(e.Line))
					wantCount[k]++
				}
			}
			T := logT0 + int64(n+5)*1e9
			for fn, want := range map[string]map[string]float64{"bytes_over_time": wantBytes, "count_over_time": wantCount} {
				mtext := fn + "(" + text + " [1h])"
				mres, err := evalQuery(&MemQuerier{Recs: ds.Recs, ErrAfter: -1}, mtext, EvalP{Start: T, End: T})
				c.Eval(1)
				d := det()
				d["metric_query"], d["metric_result"] = mtext, mres
				if err != nil {
					c.Fail("", fmt.Sprintf("%s failed: %v", mtext, err), d)
					return
				}
				gotM := map[string]float64{}
				for _, sr := range mres.Series {
					gotM[labelKey(sr.Labels)] = sr.Points[0].V
				}
				if len(gotM) != len(mres.Series) || fmt.Sprint(gotM) != fmt.Sprint(want) {
					d["expected_series"] = want
					c.Fail("", fmt.Sprintf("%s: series %v, the log query renders %v", mtext, gotM, want), d)
					return
				}
				c.Count("pipelines_below_a_range_aggregation", 1)
			}
		}
		changed := false
		for i, e := range model {
			_ = i
			for _, rec := range ds.Recs {
				if rec.TS == e.TS {
					if rec.Line != e.Line || e.Err != errNone || len(rec.Labels)+1 != len(e.L) {
						changed = true
					}
				}
			}
		}
		for _, kd := range q.Kinds() {
			c.Count("stage:"+kd, 1)
		}
		for _, e := range model {
			if e.Err == errYes {
				c.Count("records_flagged_by_failing_template", 1)
			}
		}
		c.Count("records", len(ds.Recs))
		if changed {
			c.Nontrivial(fmt.Sprintf("%d|%s", c.Idx, text))
		}
		if c.Idx < 6 {
			c.Sample("rewrite", map[string]any{"query": text, "first_record": ds.Recs[0]})
		}
	})
	// labels that are numbers, booleans, nested values (what bare `| json` produces): a template reads the
	// label's value as every other stage sees it -- a copy made by a template equals the label it copies
	r.Phase("typedcopy", r.N(60, 3000), func(c *vk.Case) {
		rng := c.Rng
		vals := []string{"1234567.5", "0.00001234", "1e21", "1e-7", "123456789012345678", "9007199254740993", "0.25", "99.9", "-1234567.25", "1e6", "1000000", "true", "null", "\"str\"", "3.0", "1.50", "12345678.9"}
		var recs []Rec
		for i := 0; i < rng.Range(3, 8); i++ {
			recs = append(recs, Rec{TS: logT0 + int64(i+1)*1e9, Line: fmt.Sprintf(`{"v":%s,"w":%s,"i":%d}`, vk.Pick(rng, vals), vk.Pick(rng, vals), i), Labels: map[string]string{"app": "x"}})
		}
		query := `{app="x"} | json | label_format cv="{{ .v }}", cw="{{ .w }}" | line_format "{{ .v }}|{{ .w }}" | drop msg`
		res, err := evalQuery(&MemQuerier{Recs: recs, ErrAfter: -1}, query, logRangeParams(len(recs)+1))
		c.Eval(1)
		det := map[string]any{"query": query, "records": recs, "result": res}
		if err != nil {
			c.Fail("", query+": "+err.Error(), det)
			return
		}
		n := 0
		for _, st := range res.Streams {
			for _, e := range st.Entries {
				n++
				if _, bad := st.Labels["__error__"]; bad {
					c.Fail("", fmt.Sprintf("%s: record flagged %s", query, st.Labels["__error_details__"]), det)
					return
				}
				if st.Labels["cv"] != st.Labels["v"] || st.Labels["cw"] != st.Labels["w"] || e.Line != st.Labels["v"]+"|"+st.Labels["w"] {
					c.Fail("", fmt.Sprintf("%s: labels v=%q w=%q, the template copies read cv=%q cw=%q and the line %q", query, st.Labels["v"], st.Labels["w"], st.Labels["cv"], st.Labels["cw"], e.Line), det)
					return
				}
				c.Count("typed_label_copies", 2)
			}
		}
		if n != len(recs) {
			c.Fail("", fmt.Sprintf("%s: %d of %d records returned", query, n, len(recs)), det)
			return
		}
		c.Nontrivial(fmt.Sprintf("typedcopy|%d", c.Idx))
	})
	r.Require("typed_label_copies", 300)

	// long runs: dozens of records in a row whose template fails at run time (a division by a label that is 0,
	// a pattern taken from a label), then records for which it works. Each record is rewritten (or flagged)
	// as it is when evaluated alone, however many failures came before it
	r.Phase("failruns", r.N(40, 2000), func(c *vk.Case) {
		rng := c.Rng
		k := rng.Range(33, 70)
		good := rng.Range(2, 8)
		var recs []Rec
		for i := 0; i < k+good; i++ {
			v, re := "0", "("
			if i >= k || (i > 3 && i < k && rng.Chance(1, 40) && false) {
				v, re = fmt.Sprint(rng.Range(1, 9)), "[aeiou]"
			}
			if i == 0 && rng.Bool() {
				v, re = "5", "o" // the run of failures may start after a record that worked
			}
			recs = append(recs, Rec{TS: logT0 + int64(i+1)*1e9, Line: fmt.Sprintf("total=100 seq=%d", i), Labels: map[string]string{"app": "x", "parts": v, "re": re}})
		}
		stage := vk.Pick(rng, []string{
			`| line_format "{{ div 100 (int .parts) }} per part"`,
			`| label_format share="{{ div 100 (int .parts) }}"`,
			`| line_format "{{ regexReplaceAll .re __line__ \"_\" }}"`,
			`| label_format a="{{ div 7 (int .parts) }}", b="{{ .app }}-{{ .parts }}"`,
			`| line_format "{{ .parts | int | div 50 }}{{ __line__ }}"`,
		})
		query := `{app="x"} ` + stage + ` | drop msg`
		type one struct {
			labels map[string]string
			line   string
		}
		alone := map[int64]one{}
		for _, rec := range recs {
			if _, done := alone[rec.TS]; done {
				continue
			}
			res, err := evalQuery(&MemQuerier{Recs: []Rec{rec}, ErrAfter: -1}, query, logRangeParams(len(recs)+1))
			c.Eval(1)
			if err != nil || len(res.Streams) != 1 || len(res.Streams[0].Entries) != 1 {
				c.Fail("", fmt.Sprintf("%s over one record: err=%v, %d streams", query, err, len(res.Streams)), map[string]any{"query": query, "record": rec})
				return
			}
			alone[rec.TS] = one{without(res.Streams[0].Labels, "__error_details__"), res.Streams[0].Entries[0].Line}
		}
		res, err := evalQuery(&MemQuerier{Recs: recs, ErrAfter: -1}, query, logRangeParams(len(recs)+1))
		c.Eval(1)
		det := map[string]any{"query": query, "failing_records_in_a_row": k, "records": len(recs)}
		if err != nil {
			c.Fail("", query+" failed: "+err.Error(), det)
			return
		}
		seen := 0
		for _, st := range res.Streams {
			for _, e := range st.Entries {
				seen++
				want, ok := alone[e.TS]
				got := without(st.Labels, "__error_details__")
				if !ok || e.Line != want.line || !mapsEqual(got, want.labels) {
					det["record_ts"], det["alone_line"], det["alone_labels"], det["in_run_line"], det["in_run_labels"] = e.TS, want.line, want.labels, e.Line, got
					c.Fail("", fmt.Sprintf("%s: record #%d gives line %q labels %s when evaluated alone, but line %q labels %s after %d failing records", query, (e.TS-logT0)/1e9-1, want.line, labelKey(want.labels), e.Line, labelKey(got), k), det)
					return
				}
			}
		}
		if seen != len(recs) {
			c.Fail("", fmt.Sprintf("%s: %d of %d records returned", query, seen, len(recs)), det)
			return
		}
		c.Count("failrun_records_compared", seen)
		c.Nontrivial(fmt.Sprintf("failruns|%d", c.Idx))
	})
	r.Require("failrun_records_compared", 1000)
	r.Require("stage:label_format-rename", 300)
	r.Require("stage:label_format-template", 300)
	r.Require("stage:label_format-mixed", 50)
	r.Require("stage:line_format", 500)
	r.Require("stage:drop", 300)
	r.Require("stage:keep", 300)
	r.Require("stage:decolorize", 300)
	r.Require("records_flagged_by_failing_template", 100)
}

//go:build verif

package props

import (
	"strconv"
	"fmt"
	"sort"
	"strings"
	"unicode/utf8"

	"github.com/docker/docker/api/types"

	"github.com/tdakkota/docker-logql/internal/dockerlog"
	"github.com/tdakkota/docker-logql/internal/zzverif/vk"
)

// CSpec is a harness-side container description.
type CSpec struct {
	ID     string            `json:"id"`
	Name   string            `json:"name"` // as Docker reports it, i.e. with leading "/" ("" = no names)
	Image  string            `json:"image"`
	State  string            `json:"state"`
	Labels map[string]string `json:"labels"`
	Frames []Frame           `json:"frames,omitempty"`
	// Aliases: further entries of the daemon's Names list (legacy links add /parent/alias); the
	// container is known to LogQL under Name only
	Aliases []string `json:"aliases,omitempty"`
	// Created: creation time in unix seconds as the daemon lists it (0 = 1700000000)
	Created int64 `json:"created,omitempty"`
}

func (c CSpec) created() int64 {
	if c.Created != 0 {
		return c.Created
	}
	return 1700000000
}

func (c CSpec) container() types.Container {
	tc := types.Container{
		ID: c.ID, Image: c.Image, ImageID: "sha256:" + c.Image, Command: "/bin/" + c.Image,
		Created: c.created(), State: c.State, Status: "Up 1 hour", Labels: c.Labels,
	}
	if c.Name != "" {
		tc.Names = append([]string{c.Name}, c.Aliases...)
	}
	return tc
}

func newFakeDocker(inv []CSpec) *FakeDocker {
	f := &FakeDocker{Frames: map[string][]Frame{}}
	for _, c := range inv {
		f.Containers = append(f.Containers, &FakeContainer{C: c.container(), Stream: EncodeFrames(c.Frames), Plan: ReadPlan{FailAt: -1}})
		f.Frames[c.ID] = c.Frames
	}
	return f
}

func dockerQuerier(f *FakeDocker) *dockerlog.Querier {
	q, err := dockerlog.NewQuerier(f)
	if err != nil {
		panic(err)
	}
	return q
}

// modelSanitise is the harness's own reading of "replace each offending character with an
// underscore": rune-wise (an invalid UTF-8 byte is one offending character). For a leading digit
// both readings are produced: replaced and "_"-prefixed.
func modelSanitise(k string) (replaced, prefixed string) {
	var a, b strings.Builder
	first := true
	for len(k) > 0 {
		r, size := utf8.DecodeRuneInString(k)
		ok := r < utf8.RuneSelf && (r == '_' || (r >= 'a' && r <= 'z') || (r >= 'A' && r <= 'Z') || (r >= '0' && r <= '9'))
		if r == utf8.RuneError && size <= 1 {
			ok = false
		}
		switch {
		case first && r >= '0' && r <= '9':
			a.WriteByte('_')
			b.WriteByte('_')
			b.WriteRune(r)
		case ok:
			a.WriteRune(r)
			b.WriteRune(r)
		default:
			a.WriteByte('_')
			b.WriteByte('_')
		}
		first = false
		k = k[size:]
	}
	return a.String(), b.String()
}

func validLabelName(s string) bool {
	if s == "" {
		return false
	}
	for i := 0; i < len(s); i++ {
		c := s[i]
		switch {
		case c == '_' || (c >= 'a' && c <= 'z') || (c >= 'A' && c <= 'Z'):
		case c >= '0' && c <= '9':
			if i == 0 {
				return false
			}
		default:
			return false
		}
	}
	return true
}

// lexer keywords: a label with such a name cannot be written in a selector unambiguously; the
// generators exclude them (counted in evidence).
var reservedWords = map[string]bool{}

func init() {
	for _, w := range strings.Fields(`unwrap by without bool offset on ignoring group_left group_right or and unless
 json regexp logfmt unpack pattern label_format line_format ip decolorize distinct drop keep
 rate rate_counter count_over_time bytes_rate bytes_over_time avg_over_time sum_over_time min_over_time
 max_over_time stdvar_over_time stddev_over_time quantile_over_time first_over_time last_over_time
 absent_over_time vector sum avg max min count stddev stdvar bottomk topk sort sort_desc label_replace
 bytes duration duration_seconds`) {
		reservedWords[w] = true
	}
}

var builtinContainerLabels = []string{"container", "container_id", "container_name", "container_image",
	"container_image_id", "container_command", "container_created", "container_state", "container_status"}

func isBuiltinLabel(s string) bool {
	for _, b := range builtinContainerLabels {
		if b == s {
			return true
		}
	}
	return false
}

// expectedContainerLabels is the model of which labels a container carries.
// ok=false if two Docker label keys collide after sanitising (or with a built-in name).
func expectedContainerLabels(c CSpec) (map[string]string, bool) {
	m, keyClash, builtinClash := expectedContainerLabels3(c)
	return m, !keyClash && !builtinClash
}

// expectedContainerLabels3 tells the two kinds of collision apart: two Docker keys of one container
// with the same sanitised name (which one survives is not stated anywhere), and a Docker key whose
// sanitised name is a built-in container label (C20: the container must be addressable by the
// Docker label's value under that name, so the Docker label is what the name reads).
func expectedContainerLabels3(c CSpec) (map[string]string, bool, bool) {
	name := strings.TrimPrefix(c.Name, "/")
	m := map[string]string{
		"container": name, "container_id": c.ID, "container_name": name, "container_image": c.Image,
		"container_state": c.State,
		// what CSpec.container() reports for the remaining built-in fields
		"container_image_id": "sha256:" + c.Image, "container_command": "/bin/" + c.Image,
		"container_created": strconv.FormatInt(c.created(), 10), "container_status": "Up 1 hour",
	}
	keyClash, builtinClash := false, false
	seen := map[string]bool{}
	keys := make([]string, 0, len(c.Labels))
	for k := range c.Labels {
		keys = append(keys, k)
	}
	sort.Strings(keys)
	for _, k := range keys {
		_, sk := modelSanitise(k)
		if seen[sk] {
			keyClash = true
		}
		if isBuiltinLabel(sk) {
			builtinClash = true
		}
		seen[sk] = true
		m[sk] = c.Labels[k]
	}
	return m, keyClash, builtinClash
}

func quoteLogQL(s string) string {
	// Go-style double-quoted string is accepted by the lexer (strutil.Unquote).
	var sb strings.Builder
	sb.WriteByte('"')
	for i := 0; i < len(s); i++ {
		c := s[i]
		switch {
		case c == '"' || c == '\\':
			sb.WriteByte('\\')
			sb.WriteByte(c)
		case c == '\n':
			sb.WriteString(`\n`)
		case c == '\t':
			sb.WriteString(`\t`)
		case c == '\r':
			sb.WriteString(`\r`)
		case c < 0x20 || c == 0x7f:
			fmt.Fprintf(&sb, `\x%02x`, c)
		case c >= 0x80:
			// keep valid UTF-8 as is, escape stray bytes
			r, size := utf8.DecodeRuneInString(s[i:])
			if r == utf8.RuneError && size <= 1 {
				fmt.Fprintf(&sb, `\x%02x`, c)
			} else {
				sb.WriteString(s[i : i+size])
				i += size - 1
			}
		default:
			sb.WriteByte(c)
		}
	}
	sb.WriteByte('"')
	return sb.String()
}

func randKey(r *vk.RNG, alphabet []string, minLen, maxLen int) string {
	n := r.Range(minLen, maxLen)
	var sb strings.Builder
	for i := 0; i < n; i++ {
		sb.WriteString(vk.Pick(r, alphabet))
	}
	return sb.String()
}

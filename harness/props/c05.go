//go:build verif

package props

import (
	"unicode/utf8"
	"fmt"
	"regexp"
	"sort"
	"strconv"
	"strings"
	"time"

	"github.com/tdakkota/docker-logql/internal/logql"
	"github.com/tdakkota/docker-logql/internal/logql/lexer"
	"github.com/tdakkota/docker-logql/internal/zzverif/vk"
)

func init() {
	register("C05", "exploration", 8*time.Minute, 60*time.Minute, runC05)
}

// ---- token stream with layout

const (
	tkPlain = iota
	tkFunc  // function-like keyword: the lexer needs "(" / by / without right after it (no comment)
	tkStr
)

type tok struct {
	s    string
	kind int
}

type gq struct {
	T []tok
	W string // expected dump
}

func (g *gq) add(ss ...string) {
	for _, s := range ss {
		g.T = append(g.T, tok{s: s})
	}
}
func (g *gq) fn(s string)        { g.T = append(g.T, tok{s: s, kind: tkFunc}) }
func (g *gq) app(o gq)           { g.T = append(g.T, o.T...) }
func (g *gq) str(r *vk.RNG, v string) { g.T = append(g.T, tok{s: renderString(r, v), kind: tkStr}) }

func renderString(r *vk.RNG, v string) string {
	// a back-quoted literal denotes its bytes as they stand: line feeds, carriage returns, tabs and
	// multi-byte runes included (only a back quote cannot be written this way; NUL and invalid UTF-8
	// are refused by the scanner)
	if !strings.ContainsAny(v, "`\x00") && utf8.ValidString(v) && r.Chance(1, 3) {
		return "`" + v + "`"
	}
	return quoteLogQL(v)
}

func isBracket(s string) bool {
	switch s {
	case "(", ")", ",", "{", "}", "[", "]":
		return true
	}
	return false
}

// layout joins tokens with insignificant whitespace / comments.
func layout(r *vk.RNG, toks []tok, style int) string {
	var sb strings.Builder
	for i, t := range toks {
		if i > 0 {
			prev := toks[i-1]
			sep := " "
			switch style {
			case 0: // compact
				if isBracket(prev.s) || isBracket(t.s) {
					sep = ""
				}
				if prev.kind == tkFunc && t.s != "(" {
					sep = " "
				}
			case 1: // single spaces
			default: // wild
				sep = vk.Pick(r, []string{" ", "  ", "\n", "\t", " \n  ", "\r\n", " "})
				if (isBracket(prev.s) || isBracket(t.s)) && r.Chance(1, 3) && !(prev.kind == tkFunc && t.s != "(") {
					sep = ""
				}
				// a comment is as insignificant as a blank: after ANY token, also between a function name and its parenthesis
				// and after a label that is named like a function; its text is free (quotes, back quotes, /*, odd numbers)
				if r.Chance(1, 6) {
					sep = " # " + vk.Pick(r, []string{"comment", "{job=\"x\"} |= \"not code\"", "", "sum by (a)",
						"don't", "that's \"it", "a ` back quote", "/* not C", "08 1e 0x", "(", "by", "without (", "it''s", "ünï", "`x` `"}) + "\n"
					if r.Chance(1, 3) {
						sep = vk.Pick(r, []string{" #\n", "#\n", "\n#\n", " #\n#\n", " #\r\n"}) // empty comments
					}
				}
			}
			sb.WriteString(sep)
		}
		sb.WriteString(t.s)
	}
	if style >= 2 && r.Chance(1, 5) {
		sb.WriteString(vk.Pick(r, []string{" # trailing comment", " #", "#", " # x\n", " #\n"}))
	}
	return sb.String()
}

// ---- pools

var (
	c05Labels     = []string{"a", "b", "job", "app", "level", "status", "x_y", "_u", "k9", "Ab",
		"Offset", "By", "JSON", "On", "Or", "Keep", "Unwrap", "Bool", "Without"} // keywords are case-sensitive: these are plain identifiers
	c05FuncLabels = []string{"rate", "sum", "duration", "ip", "bytes", "count", "vector"} // function-named labels, used where the next token is an operator, "," or ")"
	c05StrVals    = []string{"", "x", "hello world", "with \"quote\"", "back\\slash", "tab\there", "new\nline", "ünï", "{}()[]", "a|b", "#not comment", "`", "\x01", "%d", "'single'", "cr\rlf\r\nend", "\r",
		// bytes that can only be written as \xNN escapes (Latin-1 text, half a rune): an escape denotes ONE byte
		"caf\xe9", "\xff\xfe", "\xe2\x9c", "\x80", "a\xc3"}
	c05Regexes    = []string{"^a|b$", "^GET|x$", `^ab\$`, "^(a|b)$", "a.*", "(x|y)+", "[0-9]{3}", "^GET$", "\\d+\\.\\d+", "", ".*", "(?i)err", "a\\\\b", "\"q\"", "[[:alpha:]]+"}
	c05Durs       = map[string]time.Duration{"5s": 5 * time.Second, "1m": time.Minute, "2h": 2 * time.Hour, "100ms": 100 * time.Millisecond, "1d": 24 * time.Hour, "1w": 7 * 24 * time.Hour,
		"1h30m": 90 * time.Minute, "10ns": 10, "5us": 5 * time.Microsecond, "7µs": 7 * time.Microsecond, "1m30s": 90 * time.Second, "1w2d": 9 * 24 * time.Hour, "90m": 90 * time.Minute, "0s": 0, "1h1m1s": time.Hour + time.Minute + time.Second, "250ms": 250 * time.Millisecond}
	// (PB/EB/PiB/EiB and "0B" cannot be lexed at all: Go's text/scanner, which this lexer and Loki's share, reads 1P/1E as an exponent and 0B as a binary prefix; not generated)
	c05Bytes = map[string]uint64{"10B": 10, "1KB": 1000, "1KiB": 1024, "5MB": 5000000, "5MiB": 5 << 20, "2GB": 2000000000, "2GiB": 2 << 30, "1TB": 1000000000000, "1TiB": 1 << 40,
		"10kb": 10000, "10mb": 10000000, "1.5KB": 1500, "42b": 42, "7gb": 7000000000, "3tib": 3 << 40}
	c05Nums    = map[string]float64{"0": 0, "1": 1, "42": 42, "400": 400, "1.5": 1.5, "0.001": 0.001, "1e3": 1000, "2.5e-3": 0.0025, "1E2": 100, "10.0": 10, "007": 7, "123456789": 123456789,
		// numbers are decimal, however many zeros precede them
		"010": 10, "0100": 100, "012": 12, "0644": 644, "00": 0, "0010.50": 10.5}
	c05IPs     = []string{"10.0.0.1", "10.0.0.0/8", "10.0.0.1-10.0.0.9", "::1", "2001:db8::/32", "not validated here"}
	c05Tmpls   = []string{"{{.a}}", "{{ .a | ToUpper }} x", "plain", "{{ __line__ }}", "{{ if eq .a \"b\" }}y{{ end }}", ""}
	c05Pats    = []string{"<a> <b>", "<_> - <x>", "<ip> [<ts>] \"<m>\"", "no captures checked here"}
	c05RangeOps = []string{"count_over_time", "rate", "bytes_over_time", "bytes_rate", "absent_over_time"}
	c05UnwrapOps = []string{"sum_over_time", "avg_over_time", "min_over_time", "max_over_time", "stddev_over_time", "stdvar_over_time", "quantile_over_time", "first_over_time", "last_over_time", "rate", "rate_counter", "absent_over_time"}
	c05GroupableRange = map[string]bool{"avg_over_time": true, "min_over_time": true, "max_over_time": true, "stddev_over_time": true, "stdvar_over_time": true, "quantile_over_time": true, "first_over_time": true, "last_over_time": true}
	c05VecOps  = []string{"sum", "avg", "count", "max", "min", "stddev", "stdvar", "bottomk", "topk", "sort", "sort_desc"}
	c05BinOps  = map[string]string{"+": "+", "-": "-", "*": "*", "/": "/", "%": "%", "^": "^", "==": "eq", "!=": "neq", ">": "gt", ">=": "gte", "<": "lt", "<=": "lte", "and": "and", "or": "or", "unless": "unless"}
)

func pickKey[V any](r *vk.RNG, m map[string]V) string {
	keys := make([]string, 0, len(m))
	for k := range m {
		keys = append(keys, k)
	}
	sort.Strings(keys)
	return vk.Pick(r, keys)
}

func c05Label(r *vk.RNG, allowFunc bool) string {
	if allowFunc && r.Chance(1, 8) {
		return vk.Pick(r, c05FuncLabels)
	}
	return vk.Pick(r, c05Labels)
}

var strOpsText = []struct{ t, d string }{{"=", "eq"}, {"!=", "neq"}, {"=~", "re"}, {"!~", "nre"}}

// genMatcherTok: label matcher as used in selectors, drop/keep lists, unwrap filters and label filters.
func genMatcherTok(r *vk.RNG, allowFunc bool) gq {
	var g gq
	l := c05Label(r, allowFunc)
	op := vk.Pick(r, strOpsText)
	g.add(l, op.t)
	if op.d == "re" || op.d == "nre" {
		v := vk.Pick(r, c05Regexes)
		g.str(r, v)
		g.W = fmt.Sprintf("m(%s,%s,%q,re=%s)", l, op.d, v, wantSignature(v, true))
	} else {
		v := vk.Pick(r, c05StrVals)
		g.str(r, v)
		g.W = fmt.Sprintf("m(%s,%s,%q)", l, op.d, v)
	}
	return g
}

func genSelectorTok(r *vk.RNG) gq {
	var g gq
	g.add("{")
	n := r.Intn(4)
	var ws []string
	for i := 0; i < n; i++ {
		if i > 0 {
			g.add(",")
		}
		m := genMatcherTok(r, true)
		g.app(m)
		ws = append(ws, m.W)
	}
	g.add("}")
	g.W = "sel[" + strings.Join(ws, " ") + "]"
	return g
}

var cmpOpsText = []struct{ t, d string }{{"==", "eq"}, {"!=", "neq"}, {">", "gt"}, {">=", "gte"}, {"<", "lt"}, {"<=", "lte"}}

func genPredTok(r *vk.RNG, depth int) gq {
	var g gq
	if depth > 0 && r.Chance(1, 3) {
		// one logical operator per level; operands that are themselves and/or are parenthesised
		op := vk.Pick(r, []string{"and", "or", ",", ""})
		n := r.Range(2, 3)
		var ws []string
		for i := 0; i < n; i++ {
			sub := genPredTok(r, depth-1)
			if strings.HasPrefix(sub.W, "and(") || strings.HasPrefix(sub.W, "or(") {
				var p gq
				p.add("(")
				p.app(sub)
				p.add(")")
				p.W = "paren(" + sub.W + ")"
				sub = p
			}
			if i > 0 && op != "" {
				g.add(op)
			}
			if i > 0 && op == "" && sub.T[0].s == "(" {
				g.add("and") // juxtaposition needs an identifier next
			}
			g.app(sub)
			ws = append(ws, sub.W)
		}
		name := "and"
		if op == "or" {
			name = "or"
		}
		g.W = name + "(" + strings.Join(ws, " ") + ")"
		return g
	}
	if depth > 0 && r.Chance(1, 8) {
		sub := genPredTok(r, depth-1)
		g.add("(")
		g.app(sub)
		g.add(")")
		g.W = "paren(" + sub.W + ")"
		return g
	}
	l := c05Label(r, true)
	switch r.Intn(5) {
	case 0:
		op := vk.Pick(r, cmpOpsText)
		k := pickKey(r, c05Nums)
		g.add(l, op.t, k)
		g.W = fmt.Sprintf("num(%s,%s,%s)", l, op.d, fnum(c05Nums[k]))
	case 1:
		op := vk.Pick(r, cmpOpsText)
		k := pickKey(r, c05Durs)
		g.add(l, op.t, k)
		g.W = fmt.Sprintf("dur(%s,%s,%d)", l, op.d, int64(c05Durs[k]))
	case 2:
		op := vk.Pick(r, cmpOpsText)
		k := pickKey(r, c05Bytes)
		g.add(l, op.t, k)
		g.W = fmt.Sprintf("bytes(%s,%s,%d)", l, op.d, c05Bytes[k])
	case 3:
		op := vk.Pick(r, cmpOpsText[:2])
		v := vk.Pick(r, c05IPs)
		g.add(l, op.t)
		g.fn("ip")
		g.add("(")
		g.str(r, v)
		g.add(")")
		g.W = fmt.Sprintf("ipf(%s,%s,%q)", l, op.d, v)
	default:
		return genMatcherTok(r, true)
	}
	return g
}

func genLabelList(r *vk.RNG, min, max int, allowFunc bool) ([]string, gq) {
	var g gq
	n := r.Range(min, max)
	var ls []string
	used := map[string]bool{}
	for len(ls) < n {
		l := c05Label(r, allowFunc)
		if used[l] {
			continue
		}
		used[l] = true
		if len(ls) > 0 {
			g.add(",")
		}
		g.add(l)
		ls = append(ls, l)
	}
	return ls, g
}

func genStageTok(r *vk.RNG) gq {
	var g gq
	switch r.Intn(16) {
	case 0, 1:
		op := vk.Pick(r, []struct{ t, d string }{{"|=", "eq"}, {"!=", "neq"}, {"|~", "re"}, {"!~", "nre"}})
		g.add(op.t)
		if op.d == "re" || op.d == "nre" {
			v := vk.Pick(r, c05Regexes)
			g.str(r, v)
			g.W = fmt.Sprintf("lf(%s,%q,ip=false,re=%s)", op.d, v, wantSignature(v, false))
		} else {
			v := vk.Pick(r, c05StrVals)
			g.str(r, v)
			g.W = fmt.Sprintf("lf(%s,%q,ip=false)", op.d, v)
		}
	case 2:
		op := vk.Pick(r, []struct{ t, d string }{{"|=", "eq"}, {"!=", "neq"}})
		v := vk.Pick(r, c05IPs)
		g.add(op.t)
		g.fn("ip")
		g.add("(")
		g.str(r, v)
		g.add(")")
		g.W = fmt.Sprintf("lf(%s,%q,ip=true)", op.d, v)
	case 3, 4:
		kind := vk.Pick(r, []string{"json", "logfmt"})
		g.add("|", kind)
		var labels, exprs []string
		n := r.Intn(4)
		used := map[string]bool{}
		for i := 0; i < n; i++ {
			l := vk.Pick(r, c05Labels)
			if used[l] {
				continue
			}
			used[l] = true
			if len(labels)+len(exprs) > 0 {
				g.add(",")
			}
			g.add(l)
			if r.Bool() {
				e := vk.Pick(r, []string{"a.b", "x[0]", "[\"k\"]", "lvl", "a.b[1].c", "weird expr not validated at parse time"})
				g.add("=")
				g.str(r, e)
				exprs = append(exprs, fmt.Sprintf("%s=%q", l, e))
			} else {
				labels = append(labels, l)
			}
		}
		g.W = kind + "(labels[" + strings.Join(labels, ",") + "] exprs[" + strings.Join(exprs, ",") + "])"
	case 5:
		type rx struct {
			src string
			m   string
		}
		x := vk.Pick(r, []rx{{`(?P<a>\S+) (?P<b>.*)`, "1:a,2:b"}, {`^(?P<lvl>\w+):`, "1:lvl"}, {`(\d+)-(?P<x_y>\d+)`, "2:x_y"}, {`no groups`, ""}, {`(?P<_u>.)(?:x)(?P<k9>.)`, "1:_u,2:k9"}})
		g.add("|", "regexp")
		g.str(r, x.src)
		g.W = fmt.Sprintf("regexp(%q,map[%s])", x.src, x.m)
	case 6:
		p := vk.Pick(r, c05Pats)
		g.add("|", "pattern")
		g.str(r, p)
		g.W = fmt.Sprintf("pattern(%q)", p)
	case 7:
		g.add("|", "unpack")
		g.W = "unpack"
	case 8:
		t := vk.Pick(r, c05Tmpls)
		g.add("|", "line_format")
		g.str(r, t)
		g.W = fmt.Sprintf("line_format(%q)", t)
	case 9:
		g.add("|", "decolorize")
		g.W = "decolorize"
	case 10, 11, 12:
		p := genPredTok(r, 2)
		g.add("|")
		g.app(p)
		g.W = "filter(" + p.W + ")"
	case 13:
		g.add("|", "label_format")
		n := r.Range(1, 3)
		used := map[string]bool{}
		var rs, vs []string
		for i := 0; i < n; i++ {
			dst := vk.Pick(r, c05Labels)
			if used[dst] {
				continue
			}
			used[dst] = true
			if len(rs)+len(vs) > 0 {
				g.add(",")
			}
			g.add(dst, "=")
			if r.Bool() {
				src := vk.Pick(r, c05Labels)
				g.add(src)
				rs = append(rs, dst+"<-"+src)
			} else {
				t := vk.Pick(r, c05Tmpls)
				g.str(r, t)
				vs = append(vs, fmt.Sprintf("%s=%q", dst, t))
			}
		}
		g.W = "label_format(renames[" + strings.Join(rs, ",") + "] templates[" + strings.Join(vs, ",") + "])"
	case 14:
		kind := vk.Pick(r, []string{"drop", "keep"})
		g.add("|", kind)
		n := r.Range(1, 3)
		var labels, ms []string
		for i := 0; i < n; i++ {
			if i > 0 {
				g.add(",")
			}
			if r.Chance(1, 3) {
				m := genMatcherTok(r, false)
				g.app(m)
				ms = append(ms, m.W)
			} else {
				l := vk.Pick(r, c05Labels)
				g.add(l)
				labels = append(labels, l)
			}
		}
		g.W = kind + "([" + strings.Join(labels, ",") + "] [" + strings.Join(ms, " ") + "])"
	default:
		g.add("|", "distinct")
		ls, lg := genLabelList(r, 1, 3, false)
		g.app(lg)
		g.W = "distinct([" + strings.Join(ls, ",") + "])"
	}
	return g
}

func genPipelineTok(r *vk.RNG, max int) gq {
	var g gq
	n := r.Intn(max + 1)
	var ws []string
	for i := 0; i < n; i++ {
		st := genStageTok(r)
		// `drop a != "x"`: a line filter right after a drop/keep list would be read as a value matcher
		if len(ws) > 0 && (strings.HasPrefix(ws[len(ws)-1], "drop(") || strings.HasPrefix(ws[len(ws)-1], "keep(")) && (st.T[0].s == "!=" || st.T[0].s == "!~") {
			continue
		}
		g.app(st)
		ws = append(ws, st.W)
	}
	g.W = "stages[" + strings.Join(ws, " ") + "]"
	return g
}

func genLogTok(r *vk.RNG) gq {
	var g gq
	sel := genSelectorTok(r)
	pipe := genPipelineTok(r, 5)
	g.app(sel)
	g.app(pipe)
	g.W = "log(" + sel.W + " " + pipe.W + ")"
	return g
}

func genGroupingTok(r *vk.RNG) gq {
	var g gq
	kw := vk.Pick(r, []string{"by", "without"})
	g.add(kw, "(")
	ls, lg := genLabelList(r, 0, 3, true)
	g.app(lg)
	g.add(")")
	g.W = kw + "[" + strings.Join(ls, ",") + "]"
	return g
}

func genRangeTok(r *vk.RNG) gq {
	var g gq
	unwrap := r.Bool()
	var op string
	if unwrap {
		op = vk.Pick(r, c05UnwrapOps)
	} else {
		op = vk.Pick(r, c05RangeOps)
	}
	g.fn(op)
	g.add("(")
	param := "none"
	if op == "quantile_over_time" {
		k := vk.Pick(r, []string{"0.5", "0.99", "1", "0"})
		g.add(k, ",")
		f, _ := strconv.ParseFloat(k, 64)
		param = fnum(f)
	}
	sel := genSelectorTok(r)
	pipe := genPipelineTok(r, 3)
	dk := pickKey(r, c05Durs)
	var rng gq
	rng.add("[", dk, "]")
	offset := "none"
	if r.Chance(1, 3) {
		ok := pickKey(r, c05Durs)
		rng.add("offset", ok)
		offset = strconv.FormatInt(int64(c05Durs[ok]), 10)
	}
	var uw gq
	uwW := "unwrap=none"
	if unwrap {
		uw.add("|", "unwrap")
		l := c05Label(r, false)
		conv := ""
		if r.Chance(1, 3) {
			conv = vk.Pick(r, []string{"bytes", "duration", "duration_seconds"})
			uw.fn(conv)
			uw.add("(", l, ")")
		} else {
			uw.add(l)
		}
		var fs []string
		for i := 0; i < r.Intn(3); i++ {
			m := genMatcherTok(r, false)
			uw.add("|")
			uw.app(m)
			fs = append(fs, m.W)
		}
		uwW = fmt.Sprintf("unwrap(%q,%s,[%s])", conv, l, strings.Join(fs, " "))
	}
	g.app(sel)
	// both placements of the range; range-first is only possible when pipeline/unwrap follow it
	if r.Bool() {
		g.app(rng)
		g.app(pipe)
		g.app(uw)
	} else if len(pipe.T)+len(uw.T) > 0 {
		g.app(pipe)
		g.app(uw)
		g.app(rng)
	} else {
		g.app(rng)
	}
	g.add(")")
	grp := "nogroup"
	if c05GroupableRange[op] && r.Chance(1, 3) {
		gg := genGroupingTok(r)
		g.app(gg)
		grp = gg.W
	}
	g.W = fmt.Sprintf("range(%s param=%s %s range=%d offset=%s %s %s %s)", op, param, sel.W, int64(c05Durs[dk]), offset, pipe.W, uwW, grp)
	return g
}

func genMetricTok(r *vk.RNG, depth int) gq {
	var g gq
	if depth <= 0 {
		switch r.Intn(6) {
		case 0:
			k := pickKey(r, c05Nums)
			g.fn("vector")
			g.add("(", k, ")")
			g.W = "vector(" + fnum(c05Nums[k]) + ")"
			return g
		default:
			return genRangeTok(r)
		}
	}
	switch r.Intn(8) {
	case 0, 1, 2:
		op := vk.Pick(r, c05VecOps)
		inner := genMetricTok(r, depth-1)
		param := "none"
		var arg gq
		if op == "topk" || op == "bottomk" {
			k := vk.Pick(r, []string{"1", "3", "10", "010", "012"})
			arg.add(k, ",")
			param = strings.TrimLeft(k, "0") // decimal, however many zeros precede it
		}
		arg.app(inner)
		grp := "nogroup"
		var gg gq
		if op != "sort" && op != "sort_desc" && r.Bool() {
			gg = genGroupingTok(r)
			grp = gg.W
		}
		g.fn(op)
		if len(gg.T) > 0 && r.Bool() {
			g.app(gg)
			g.add("(")
			g.app(arg)
			g.add(")")
		} else {
			g.add("(")
			g.app(arg)
			g.add(")")
			g.app(gg)
		}
		g.W = fmt.Sprintf("vecagg(%s param=%s %s %s)", op, param, grp, inner.W)
	case 3, 4:
		// binary operation; operands that are binary operations are parenthesised (C13 covers chains)
		opT := pickKey(r, c05BinOps)
		operand := func(allowLit bool) gq {
			if allowLit && r.Chance(1, 3) {
				var l gq
				k := pickKey(r, c05Nums)
				sign := ""
				if r.Chance(1, 4) {
					sign = vk.Pick(r, []string{"-", "+"})
					l.add(sign)
				}
				l.add(k)
				v := c05Nums[k]
				if sign == "-" {
					v = -v
				}
				l.W = "lit(" + fnum(v) + ")"
				if v == 0 && sign == "-" {
					l.W = "lit(-0)"
				}
				return l
			}
			o := genMetricTok(r, depth-1)
			if strings.HasPrefix(o.W, "bin(") || r.Chance(1, 5) {
				var p gq
				p.add("(")
				p.app(o)
				p.add(")")
				p.W = o.W
				return p
			}
			return o
		}
		// genMod writes the modifier of one operator and returns its canonical text
		genMod := func() string {
			boolMod := false
			if r.Chance(1, 4) {
				g.add("bool")
				boolMod = true
			}
			mop, grpSide := "", ""
			var opLabels, include []string
			if r.Chance(1, 4) {
				mop = vk.Pick(r, []string{"on", "ignoring"})
				g.add(mop, "(")
				ls, lg := genLabelList(r, 0, 2, false)
				opLabels = ls
				g.app(lg)
				g.add(")")
				if r.Bool() {
					grpSide = vk.Pick(r, []string{"left", "right"})
					g.add("group_" + grpSide)
					// an include list is only unambiguous when non-empty (an empty "()" followed by "(" operand is fine too, but keep to the clear forms)
					if r.Bool() {
						ls, lg := genLabelList(r, 1, 2, false)
						include = ls
						g.add("(")
						g.app(lg)
						g.add(")")
					}
				}
			}
			return fmt.Sprintf("mod(bool=%v,%q,[%s],%q,[%s])", boolMod, mop, strings.Join(opLabels, ","), grpSide, strings.Join(include, ","))
		}
		if r.Chance(1, 4) {
			// a chain of 2-3 operators without parentheses, each with its own modifier (round 18). The levels
			// strictly loosen from left to right, so the grouping is the same under every associativity
			// ((a ^ b) * c) + d; an operator's modifier is the one written after it and nothing else.
			levels := [][]string{{"^"}, {"*", "/", "%"}, {"+", "-"}, {"==", "!=", ">", ">=", "<", "<="}, {"and", "unless"}, {"or"}}
			n := r.Range(2, 3)
			var idx []int
			for len(idx) < n {
				k := r.Intn(len(levels))
				dup := false
				for _, x := range idx {
					dup = dup || x == k
				}
				if !dup {
					idx = append(idx, k)
				}
			}
			sort.Ints(idx)
			first := operand(false)
			g.app(first)
			w := first.W
			for _, li := range idx {
				op := vk.Pick(r, levels[li])
				g.add(op)
				m := genMod()
				rhs := operand(false)
				g.app(rhs)
				w = fmt.Sprintf("bin(%s %s %s %s)", c05BinOps[op], m, w, rhs.W)
			}
			g.W = w
			break
		}
		logic := opT == "and" || opT == "or" || opT == "unless"
		left := operand(!logic)
		right := operand(!logic && !strings.HasPrefix(left.W, "lit("))
		g.app(left)
		g.add(opT)
		m := genMod()
		g.app(right)
		g.W = fmt.Sprintf("bin(%s %s %s %s)", c05BinOps[opT], m, left.W, right.W)
	case 5:
		inner := genMetricTok(r, depth-1)
		dst, repl, src, re := vk.Pick(r, c05Labels), vk.Pick(r, []string{"$1", "x-$2", ""}), vk.Pick(r, c05Labels), vk.Pick(r, c05Regexes)
		g.fn("label_replace")
		g.add("(")
		g.app(inner)
		g.add(",")
		g.str(r, dst)
		g.add(",")
		g.str(r, repl)
		g.add(",")
		g.str(r, src)
		g.add(",")
		g.str(r, re)
		g.add(")")
		g.W = fmt.Sprintf("label_replace(%s,%q,%q,%q,%q,re=%s)", inner.W, dst, repl, src, re, wantSignature(re, true))
	case 6:
		inner := genMetricTok(r, depth-1)
		g.add("(")
		g.app(inner)
		g.add(")")
		g.W = inner.W
	default:
		return genMetricTok(r, 0)
	}
	return g
}

// ---- negative side

var closerRe = regexp.MustCompile("\"(?:[^\"\\\\]|\\\\.)*\"|`[^`]*`|#[^\n]*|[(){}\\[\\]]")

// bracketSites returns the byte offsets of brackets outside strings and comments.
func bracketSites(q string) []int {
	var out []int
	for _, loc := range closerRe.FindAllStringIndex(q, -1) {
		if loc[1]-loc[0] == 1 && strings.ContainsAny(q[loc[0]:loc[1]], "(){}[]") {
			out = append(out, loc[0])
		}
	}
	return out
}

func runC05(r *vk.Run) {
	r.SetRule("positive side: the generator owns an AST for the whole supported grammar (selectors with 4 operators; all 13 stage kinds in all their forms; label filters with string/number/duration/bytes/ip comparisons, and/or/,/juxtaposition/parentheses; 15 range functions with parameter, grouping, offset, unwrap with conversions and post-unwrap filters, both placements of the range; " +
		"11 vector functions with both placements of the grouping; vector(), literals with sign, label_replace, 15 binary operators with bool/on/ignoring/group_left/group_right; literals of every unit), renders it in 3 layouts (compact, spaced, wild: newlines, tabs, comments, back-quoted strings, redundant parentheses) and to the expected canonical tree; Parse must return exactly that tree for every layout. " +
		"negative side: catalogue of grammar/static-rule violations instantiated over generated sub-queries, deletion of EVERY bracket outside strings (one at a time), trailing tokens: all must be rejected. non-trivial = distinct query texts with >=3 AST nodes.")
	r.Assume("binary chains with adjacent operators are left to C13 (operands that are binary operations are parenthesised here)", "mixed and/or inside one label filter are parenthesised; same-operator chains are compared flattened",
		"forms the implementation pins differently from Loki (`== ip()`, `==` for numeric equality) are used as the implementation defines them", "comments are not placed between a function name and its parenthesis (lexer look-ahead)")

	parse := func(c *vk.Case, text string) (string, error) {
		e, err := logql.Parse(text, logql.ParseOptions{})
		c.Eval(1)
		if err != nil {
			return "", err
		}
		return dumpExpr(e), nil
	}

	r.Phase("positive", r.N(4000, 1500000), func(c *vk.Case) {
		rng := c.Rng
		var g gq
		kind := "log"
		if c.Idx%2 == 0 {
			g = genLogTok(rng)
			if rng.Chance(1, 10) {
				var p gq
				p.add("(")
				p.app(g)
				p.add(")")
				p.W = g.W
				g = p
			}
		} else {
			g = genMetricTok(rng, rng.Range(0, 3))
			kind = "metric"
		}
		first := ""
		for style := 0; style < 3; style++ {
			text := layout(rng, g.T, style)
			got, err := parse(c, text)
			det := map[string]any{"query": text, "layout": style, "expected_tree": g.W, "parsed_tree": got}
			if err != nil {
				det["error"] = err.Error()
				c.Fail("", fmt.Sprintf("valid query rejected: %q: %v", text, err), det)
				return
			}
			if got != g.W {
				c.Fail("", fmt.Sprintf("query %q parsed into another structure:\n   got  %s\n   want %s", text, got, g.W), det)
				return
			}
			if first == "" {
				first = got
			}
			c.Count("layouts_checked", 1)
		}
		padEvery := 10
		if c.Thorough() {
			padEvery = 40 // 1.5 million cases: every 40th is still 37 500 queries x ~600 paddings
		}
		if c.Idx%padEvery == 3 {
			// long query texts (a leading comment block, indentation): the text is read in pieces, and where a
			// piece ends is no token boundary. The padding is grown byte by byte so that the ends of the 1 KiB,
			// 2 KiB and 4 KiB pieces fall on every byte of the query in turn
			text := layout(rng, g.T, 1)
			if len(text) < 1500 {
				for _, boundary := range []int{1024, 2048, 4096} {
					for pad := boundary - len(text) - 2; pad <= boundary+1; pad++ {
						if pad < 0 {
							continue
						}
						var padded string
						switch pad % 3 {
						case 0:
							padded = strings.Repeat(" ", pad) + text
						case 1:
							padded = "#" + strings.Repeat("-", pad-1)[:max(pad-2, 0)] + "\n" + text
							if pad < 2 {
								padded = strings.Repeat("\n", pad) + text
							}
						default:
							padded = strings.Repeat(" \n", pad/2) + strings.Repeat(" ", pad%2) + text
						}
						got, err := parse(c, padded)
						if err != nil || got != g.W {
							c.Fail("", fmt.Sprintf("query behind %d bytes of blanks / comment (total %d bytes) is rejected or parsed into another structure: %q: err=%v", pad, len(padded), text, err), map[string]any{"query": text, "padding_bytes": pad, "expected_tree": g.W, "parsed_tree": got})
							return
						}
						c.Count("padded_layouts_checked", 1)
					}
				}
			}
		}
		c.Count("kind:"+kind, 1)
		for _, n := range []string{"lf(", "json(", "logfmt(", "regexp(", "pattern(", "unpack", "line_format(", "decolorize", "filter(", "label_format(", "drop(", "keep(", "distinct(", "range(", "vecagg(", "bin(", "label_replace(", "vector(", "lit(", "unwrap(", "offset=none", "by[", "without["} {
			c.Count("node:"+n, strings.Count(g.W, n))
		}
		if strings.Count(g.W, "(") >= 3 {
			c.Nontrivial(g.W)
		}
		if c.Idx < 6 {
			c.Sample("positive", map[string]any{"query": layout(rng, g.T, 2), "tree": g.W})
		}
	})

	// the text handed to the engine is the text that is parsed: white space inside string literals is part
	// of the string, a comment ends at its line break. Checked by evaluation (the user's entry point):
	// line filters whose needles contain white-space runs, laid out over several lines with comments.
	r.Phase("viaeval", r.N(300, 30000), func(c *vk.Case) {
		rng := c.Rng
		pool := []string{"disk  full", "disk full", "a\tb", "a b", "a  b", "x", "tab\t\tend", "two\u00a0words", "two words", " lead", "trail "}
		var recs []Rec
		for i, l := range pool {
			recs = append(recs, Rec{TS: logT0 + int64(i+1)*1e9, Line: l, Labels: map[string]string{"job": "j"}})
		}
		nf := rng.Range(1, 3)
		type lf struct {
			neg    bool
			needle string
		}
		var fs []lf
		text := `{job="j"}`
		sepOf := func() string {
			return vk.Pick(rng, []string{" ", "\n", "\n  ", " # only errors\n", "\t", " #\n", "\n# {job=\"x\"} |= \"not code\"\n", "  "})
		}
		for i := 0; i < nf; i++ {
			f := lf{neg: rng.Chance(1, 3), needle: vk.Pick(rng, []string{"disk  full", "disk full", "a\tb", "a b", "  ", "\t", " ", "two\u00a0words", "\t\t", "k ", " l"})}
			fs = append(fs, f)
			op := "|="
			if f.neg {
				op = "!="
			}
			lit := strconv.Quote(f.needle)
			if rng.Bool() && !strings.Contains(f.needle, "`") {
				lit = "`" + f.needle + "`" // raw string: the bytes as they are, a literal tab included
			}
			text += sepOf() + op + vk.Pick(rng, []string{" ", "", "\n"}) + lit
		}
		if rng.Chance(1, 3) {
			text += vk.Pick(rng, []string{" # trailing comment", "\n", " #"})
		}
		var want []string
		for _, l := range pool {
			keep := true
			for _, f := range fs {
				if strings.Contains(l, f.needle) == f.neg {
					keep = false
				}
			}
			if keep {
				want = append(want, l)
			}
		}
		res, err := evalQuery(&MemQuerier{Recs: recs, ErrAfter: -1}, text, EvalP{Start: logT0, End: logT0 + 60e9, Step: time.Second, Limit: -1})
		c.Eval(1)
		det := map[string]any{"query": text, "lines": pool, "expected": want}
		if err != nil {
			c.Fail("", fmt.Sprintf("valid query %q failed through Engine.Eval: %v", text, err), det)
			return
		}
		var got []string
		for _, st := range res.Streams {
			for _, e := range st.Entries {
				got = append(got, e.Line)
			}
		}
		sort.Strings(got)
		sort.Strings(want)
		if fmt.Sprintf("%q", got) != fmt.Sprintf("%q", want) {
			det["returned"] = got
			c.Fail("", fmt.Sprintf("query %q returned %q, its text denotes %q", text, got, want), det)
			return
		}
		c.Count("evaluated_layouts", 1)
		if len(want) > 0 && len(want) < len(pool) {
			c.Nontrivial("viaeval|" + text)
		}
	})
	r.Require("evaluated_layouts", 200)

	// the query the user types is the query that is parsed: through the plugin binary itself, with
	// characters a shell, an environment or a template engine would like to interpret ($, ${..}, %, ~, *)
	// inside string literals
	r.Phase("cli", r.N(6, 60), func(c *vk.Case) {
		lines := []string{"cost ${1} usd", "cost $1 usd", "home ${HOME}/x", "home $HOME/x", "path $PATH", "pct %s 100%", "tilde ~/x", "star * ?", "plain", "brace ${", "empty ${} x", "dollar $$ x"}
		cs := CSpec{ID: "id00", Name: "/c0", Image: "img", State: "running"}
		for i, l := range lines {
			cs.Frames = append(cs.Frames, Frame{Type: 1, TS: int64(1700000000+i) * 1e9, Body: l + "\n"})
		}
		d, err := startFakeDaemon([]CSpec{cs}, false)
		if err != nil {
			c.R.Inconclusive("fake daemon: " + err.Error())
			return
		}
		defer d.Close()
		needles := []string{"${1}", "$1 ", "${HOME}", "$HOME", "$PATH", "%s", "~/", "* ?", "${", "${}", "$$", "$", "{1}"}
		for _, needle := range needles {
			query := `{container="c0"} |= ` + strconv.Quote(needle)
			pr, err := runPlugin(d, 60*time.Second, query, "--start", "1699990000", "--end", "1700009999", "--timestamp=false", "--container=false", "--color=false")
			c.Eval(1)
			if err != nil {
				c.R.Inconclusive("cannot run plugin binary: " + err.Error())
				return
			}
			var want []string
			for _, l := range lines {
				if strings.Contains(l, needle) {
					want = append(want, l)
				}
			}
			got := strings.Split(strings.TrimRight(string(pr.Stdout), "\n"), "\n")
			if len(got) == 1 && got[0] == "" {
				got = nil
			}
			if pr.Exit != 0 || fmt.Sprintf("%q", got) != fmt.Sprintf("%q", want) {
				c.Fail("", fmt.Sprintf("plugin run with query %s printed %q (exit %d), the query denotes the lines %q", query, got, pr.Exit, want), map[string]any{"query": query, "stdout": string(pr.Stdout), "stderr": trunc(string(pr.Stderr), 2000), "expected": want})
				return
			}
			c.Count("cli_queries", 1)
		}
		c.Nontrivial(fmt.Sprintf("cli|%d", c.Idx))
	})
	r.Require("cli_queries", 50)

	// negative: static rules and grammar violations over generated parts
	r.Phase("negative", r.N(600, 150000), func(c *vk.Case) {
		rng := c.Rng
		sel := layout(rng, genSelectorTok(rng).T, 1)
		selPipe := layout(rng, genLogTok(rng).T, 1)
		metric := layout(rng, genRangeTok(rng).T, 1)
		lbl := vk.Pick(rng, c05Labels)
		bad := map[string]string{
			"param-on-count":            "count_over_time(0.5, " + sel + "[1m])",
			"param-on-sum":              "sum(2, " + metric + ")",
			"quantile-without-param":    "quantile_over_time(" + sel + " | unwrap " + lbl + " [1m])",
			"topk-without-param":        "topk(" + metric + ")",
			"bottomk-without-param":     "bottomk by (a) (" + metric + ")",
			"topk-zero":                 "topk(0, " + metric + ")",
			"grouping-on-sort":          "sort(" + metric + ") by (a)",
			"grouping-on-sort-desc":     "sort_desc by (a) (" + metric + ")",
			"grouping-on-count":         "count_over_time(" + sel + "[1m]) by (a)",
			"grouping-on-rate":          "rate(" + sel + "[1m]) without (a)",
			"grouping-on-sum-over-time": "sum_over_time(" + sel + " | unwrap " + lbl + " [1m]) by (a)",
			"duplicate-label-format":    selPipe + " | label_format a=b, a=c",
			"duplicate-label-format-2":  selPipe + ` | label_format a="x", a=c`,
			// the repeat is a repeat wherever it stands and whatever stands in between
			"duplicate-label-format-3":  selPipe + ` | label_format c=x, a=y, c=z`,
			"duplicate-label-format-4":  selPipe + ` | label_format level=lvl, app=service, level="{{.severity}}"`,
			"duplicate-label-format-5":  selPipe + ` | label_format z="1", m=n, b=c, z=b`,
			"duplicate-label-format-6":  selPipe + ` | label_format b=a, a=b, b="x"`,
			"unwrap-on-log-query":       selPipe + " | unwrap " + lbl,
			"missing-unwrap":            "sum_over_time(" + sel + "[1m])",
			"missing-unwrap-avg":        "avg_over_time(" + sel + " | json [1m])",
			"unwrap-on-count":           "count_over_time(" + sel + " | unwrap " + lbl + " [1m])",
			"unwrap-on-bytes":           "bytes_over_time(" + sel + " | unwrap " + lbl + " [1m])",
			"ip-with-regex-op":          selPipe + ` |~ ip("1.1.1.1")`,
			"ip-filter-with-gt":         selPipe + ` | addr > ip("1.1.1.1")`,
			"scalar-left-logical":       "1 and " + metric,
			"scalar-right-logical":      metric + " or 2",
			"scalar-unless":             metric + " unless 2",
			"string-with-gt":            selPipe + ` | a > "x"`,
			"number-with-regex":         selPipe + ` | a =~ 5`,
			"duration-with-regex":       selPipe + ` | a !~ 5s`,
			"unknown-unit":              selPipe + " | a > 10xs",
			"unknown-unit-range":        "count_over_time(" + sel + "[5sms])",
			"bad-duration-order":        "count_over_time(" + sel + "[1d1w])",
			"missing-range":             "count_over_time(" + sel + ")",
			"missing-range-unwrap":      "sum_over_time(" + sel + " | unwrap " + lbl + ")",
			"offset-without-duration":   "count_over_time(" + sel + "[1m] offset)",
			"range-without-duration":    "count_over_time(" + sel + "[])",
			"by-without-parens":         "sum by a (" + metric + ")",
			// a separator separates: nothing may follow the last label but the closing parenthesis
			"grouping-trailing-comma":       "sum by (a,) (" + metric + ")",
			"grouping-trailing-comma-after": "sum(" + metric + ") without (a, b,)",
			"grouping-only-comma":           "sum by (,) (" + metric + ")",
			"grouping-leading-comma":        "sum by (,a) (" + metric + ")",
			"grouping-double-comma":         "sum by (a,,b) (" + metric + ")",
			"range-grouping-trailing-comma": "sum_over_time(" + sel + " | unwrap " + lbl + " [1m]) by (a,)",
			"on-trailing-comma":             metric + " + on (a,) " + metric,
			"ignoring-trailing-comma":       metric + " * ignoring (a, b,) " + metric,
			"group-left-trailing-comma":     metric + " / on (a) group_left (b,) " + metric,
			"selector-leading-comma":        `{,a="b"}`,
			"drop-trailing-comma":           selPipe + " | drop a,",
			"keep-trailing-comma":           selPipe + " | keep a, b, | json",
			"json-trailing-comma":           selPipe + " | json a, | logfmt",
			"label-format-trailing-comma":   selPipe + " | label_format a=b, | json",
			"distinct-trailing-comma":       selPipe + " | distinct a, | json",
			"vector-string":             `vector("a")`,
			"vector-empty":              "vector()",
			"label-replace-few-args":    "label_replace(" + metric + `, "a", "b")`,
			// the static rules hold at every depth, also below label_replace and inside operands
			"lr-topk-without-param":     "label_replace(topk(" + metric + `), "a", "$1", "b", "(.*)")`,
			"lr-quantile-without-param": "label_replace(quantile_over_time(" + sel + " | unwrap " + lbl + ` [1m]), "a", "$1", "b", "(.*)")`,
			"lr-grouping-on-rate":       "label_replace(sum(rate(" + sel + `[1m]) by (a)), "a", "$1", "b", "(.*)")`,
			"lr-unwrap-missing":         "label_replace(sum_over_time(" + sel + `[1m]), "a", "$1", "b", "(.*)") + ` + metric,
			"lr-nested-sort-grouping":   "sum(label_replace(sort by (a) (" + metric + `), "a", "$1", "b", "(.*)"))`,
			"operand-topk-zero":         metric + " / topk(0, " + metric + ")",
			"distinct-without-labels":   selPipe + " | distinct",
			"drop-without-labels":       selPipe + " | drop",
			"keep-without-labels":       selPipe + " | keep",
			"line-format-without-tmpl":  selPipe + " | line_format",
			"pattern-without-string":    selPipe + " | pattern",
			"json-expr-without-string":  selPipe + " | json a=",
			"unterminated-string":       selPipe + ` |= "unterminated`,
			"matcher-number":            "{a=5}",
			"matcher-without-op":        `{a "b"}`,
			"matcher-without-value":     "{a=}",
			"matcher-without-label":     `{="b"}`,
			"selector-trailing-comma":   `{a="b",}`,
			"bool-without-operand":      metric + " > bool",
			"binop-without-right":       metric + " +",
			"binop-without-left":        "* " + metric,
			"empty-query":               "",
			"only-pipe":                 "|",
			"unknown-stage":             selPipe + " | frobnicate",
			"unknown-function":          "frobnicate(" + sel + "[1m])",
			"invalid-regex-selector":    `{a=~"("}`,
			"invalid-regex-line":        selPipe + ` |~ "("`,
			"invalid-regex-line-neg":    selPipe + ` !~ "[a"`,
			"invalid-regex-label":       selPipe + ` | a=~"(?P<x"`,
			"invalid-regex-stage":       selPipe + ` | regexp "("`,
			"duplicate-capture":         selPipe + ` | regexp "(?P<a>.)(?P<a>.)"`,
			"invalid-regex-drop":        selPipe + ` | drop a=~"("`,
			"invalid-regex-keep":        selPipe + ` | keep a!~"*"`,
			"invalid-regex-unwrap":      "sum_over_time(" + sel + ` | unwrap a | b=~"(" [1m])`,
			"invalid-regex-replace":     "label_replace(" + metric + `, "a", "b", "c", "(")`,
			// label names with dots belong to the dotted dialect only (ParseOptions.AllowDots); the plugin
			// parses in the strict one, whatever the same process parsed before in the other
			"dotted-selector-label": `{service.name="api"}`,
			"dotted-filter-label":   selPipe + ` | http.method="GET"`,
			"dotted-grouping-label": "sum by (k8s.pod) (" + metric + ")",
			"dotted-unwrap-label":   "sum_over_time(" + sel + " | unwrap http.size [5m])",
			"dotted-drop-label":     selPipe + " | drop a.b",
			"two-queries":               selPipe + " " + sel,
			"metric-then-selector":      metric + " " + sel,
			"trailing-paren":            metric + " )",
			"trailing-brace":            selPipe + " }",
			"trailing-ident":            sel + " foo",
			"trailing-ident-metric":     metric + " foo",
			"trailing-string":           metric + ` "x"`,
			"trailing-comma":            metric + " ,",
		}
		if c.Idx%2 == 1 {
			// the other dialect, in the same process, right before the strict parses
			dotted := `sum by (k8s.pod) (count_over_time({service.name="api"} | json | http.method="GET" [1m]))`
			if _, err := logql.Parse(dotted, logql.ParseOptions{AllowDots: true}); err != nil {
				c.Fail("", "dotted dialect rejects "+dotted+": "+err.Error(), map[string]any{"query": dotted})
			}
			c.Eval(1)
			c.Count("dotted_dialect_parses", 1)
		}
		names := make([]string, 0, len(bad))
		for k := range bad {
			names = append(names, k)
		}
		sort.Strings(names)
		for _, name := range names {
			text := bad[name]
			got, err := parse(c, text)
			if err == nil {
				c.Fail("", fmt.Sprintf("[%s] invalid query accepted: %q parsed as %s", name, text, got), map[string]any{"corruption": name, "query": text, "parsed_tree": got})
				continue
			}
			c.Count("corruptions_rejected", 1)
			c.Seen("corruption_operators", name)
		}
		// a text that does not even split into tokens is not made valid by what follows it: if the lexer
		// refuses a prefix that ends in a complete token, it refuses every continuation of it (units, strings,
		// closing brackets), and so does the parser
		for _, pre := range []string{"{a=\"b\"} |= \"caf\xe9\"", "{a=\"b\x00c\"}", "count_over_time({a=\"b\"} |= \"caf\xe9\"", "{a=\"b\"} | x > 09", "topk(08, rate({a=\"b\"}",
			"{a=\"b\"} |= 'c'", "{a=\"b\"} | x = 1e", "{a=\"b\"} | x = 0x", "{a=`b\xff`}"} {
			if _, lerr := lexer.Tokenize(pre, lexer.TokenizeOptions{}); lerr == nil {
				c.Count("sticky_prefixes_the_lexer_accepts", 1)
				continue // the lexer has no quarrel with this prefix: nothing to compare
			}
			for _, suf := range []string{" [5m])", " | y > 5m", " | z < 10KB", " [1h] offset 5m)", " |= \"ok\"", " [5m])) by (a)", " | w >= 1.5h | v <= 2MiB", " # 5m\n | u > 3s"} {
				text := pre + suf
				if _, lerr := lexer.Tokenize(text, lexer.TokenizeOptions{}); lerr == nil {
					c.Fail("", fmt.Sprintf("[lexical-error-forgotten] the lexer refuses %q but accepts it when %q follows", pre, suf), map[string]any{"corruption": "lexical-error-forgotten", "prefix": pre, "suffix": suf})
					continue
				}
				if got, err := parse(c, text); err == nil {
					c.Fail("", fmt.Sprintf("[lexical-error-forgotten] %q parsed as %s although its prefix %q does not tokenize", text, got, pre), map[string]any{"corruption": "lexical-error-forgotten", "query": text})
					continue
				}
				c.Count("corruptions_rejected", 1)
				c.Count("sticky_lexical_errors", 1)
			}
		}
		// delete every bracket outside strings/comments of a valid query, one at a time
		var g gq
		if rng.Bool() {
			g = genLogTok(rng)
		} else {
			g = genMetricTok(rng, 2)
		}
		text := layout(rng, g.T, rng.Intn(3))
		for _, at := range bracketSites(text) {
			mut := text[:at] + text[at+1:]
			got, err := parse(c, mut)
			if err == nil {
				c.Fail("", fmt.Sprintf("[bracket-deleted] unbalanced query accepted: %q (from %q) parsed as %s", mut, text, got), map[string]any{"corruption": "bracket-deleted", "query": mut, "original": text, "at": at})
				continue
			}
			c.Count("corruptions_rejected", 1)
			c.Count("bracket_sites", 1)
		}
		c.Seen("corruption_operators", "bracket-deleted")
		c.Nontrivial("neg" + text)
		if c.Idx == 0 {
			c.Sample("negative", map[string]any{"examples": []string{bad["grouping-on-sort"], bad["duplicate-label-format"], bad["scalar-left-logical"]}})
		}
	})
	r.Require("padded_layouts_checked", 20000)
	r.Require("layouts_checked", 9000)
	r.Require("corruptions_rejected", 20000)
	r.Require("distinct:corruption_operators", 70)
	r.Require("node:bin(", 200)
	r.Require("node:unwrap(", 300)
}

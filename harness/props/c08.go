//go:build verif

package props

import (
	"fmt"
	"sort"
	"strings"
	"time"

	"github.com/tdakkota/docker-logql/internal/zzverif/vk"
)

func init() {
	register("C08", "exploration", 8*time.Minute, 60*time.Minute, runC08)
}

// label values that collide under naive (unquoted / separator-less) joining
var c08Vals = []string{`1`, `1",b="2`, `2`, `1\`, `",b="2`, `1,b=2`, "1\n", `12`, ``, `"`, `1"`, `b`, `=`, `{}`, `1} {a=1`}

// pushStage appends st unless its text would be re-read as part of the previous stage.
func pushStage(q *LogQ, st Stage) bool {
	if n := len(q.Stages); n > 0 {
		last := q.Stages[n-1].Kind
		if (last == "drop" || last == "keep") && (strings.HasPrefix(st.Text, "!=") || strings.HasPrefix(st.Text, "!~")) {
			return false
		}
	}
	q.Stages = append(q.Stages, st)
	return true
}

func runC08(r *vk.Run) {
	r.SetRule("datasets (all line formats) whose records additionally carry labels a,b with values that collide under naive joining ({a=\"1\\\",b=\\\"2\"} vs {a=\"1\",b=\"2\"}, embedded quotes, commas, newlines, backslashes) x queries whose stages add, remove or rewrite labels " +
		"(parsers, label_format, drop, keep, filters, distinct) x every limit in {-5,-1,0,1,N-1,N,N+1,2N}. Checked on the raw result: no two streams share a label set, every entry sits in the stream carrying exactly its expected final labels, per-stream time order, " +
		"total = N (limit<=0) and with limit L the first min(L,N) matching records in time order. non-trivial = distinct (dataset, query, limit) with >=2 streams or a limit that truncates.")
	r.Assume("unique timestamps make 'first L' unambiguous (phase partition); phase containers compares the multiset of returned timestamps with the first L of all timestamps, which ties do not make ambiguous, and uses positive limits only when every container's own log is time-ordered", "expected final labels come from the C01/C07 reference interpreter")
	msg, err := calibrateMsgLabel()
	if err != nil {
		r.Inconclusive(err.Error())
		return
	}
	// the limit convention on the smallest input, before anything else relies on it
	r.Phase("probe", 1, func(c *vk.Case) {
		c.Eval(7)
		if m := probeLimits(); m != "" {
			c.Fail("", m, map[string]any{"query": `{app="x"}`, "records": 1})
			return
		}
		c.Count("limit_probe", 1)
		// and on more records than any default page or cap: every limit means what it says
		n := 6000 + c.Rng.Intn(500)
		recs := make([]Rec, 0, n)
		for i := 0; i < n; i++ {
			recs = append(recs, Rec{TS: logT0 + int64(i+1)*1e6, Line: fmt.Sprintf("n=%d", i), Labels: map[string]string{"app": "x"}})
		}
		for _, L := range []int{-1, 0, 1, 100, 101, 1000, 5000, 5001, n - 1, n, n + 1, 10 * n} {
			res, err := evalQuery(&MemQuerier{Recs: recs, ErrAfter: -1}, `{app="x"} | drop msg`, EvalP{Start: logT0, End: logT0 + int64(n+5)*1e6, Step: time.Second, Limit: L})
			c.Eval(1)
			want := n
			if L > 0 && L < n {
				want = L
			}
			got, maxTS := 0, int64(0)
			for _, st := range res.Streams {
				for _, e := range st.Entries {
					got++
					if e.TS > maxTS {
						maxTS = e.TS
					}
				}
			}
			if err != nil || got != want || maxTS != logT0+int64(want)*1e6 {
				c.Fail("", fmt.Sprintf("%d matching records, limit %d: %d entries returned (newest %d), expected the first %d (err=%v)", n, L, got, maxTS-logT0, want, err), map[string]any{"records": n, "limit": L})
				return
			}
			c.Count("bulk_limit_checks", 1)
		}
	})
	formats := []string{"json", "logfmt", "access", "packed", "plain", "mixed"}
	r.Phase("partition", r.N(1500, 400000), func(c *vk.Case) {
		rng := c.Rng
		n := rng.Range(4, 30)
		ds := genDataset(rng, formats[c.Idx%len(formats)], n, logT0)
		for i := range ds.Recs {
			if rng.Chance(3, 4) {
				ds.Recs[i].Labels["a"] = vk.Pick(rng, c08Vals)
			}
			if rng.Chance(3, 4) {
				ds.Recs[i].Labels["b"] = vk.Pick(rng, c08Vals)
			}
			if rng.Chance(1, 5) {
				ds.Recs[i].Labels["ab"] = vk.Pick(rng, c08Vals)
			}
		}
		if n >= 2 && rng.Chance(1, 2) {
			// force two records into label sets that differ but collide under a naive stream key
			i, j := rng.Intn(n), rng.Intn(n)
			if i != j {
				base := copyMap(ds.Recs[i].Labels)
				delete(base, "a")
				delete(base, "b")
				delete(base, "ab")
				li, lj := copyMap(base), copyMap(base)
				// ("a","aa" are adjacent in sorted order, before "app")
				switch rng.Intn(3) {
				case 0: // unquoted "k=v" joined by ","
					li["a"] = "1,aa=2"
					lj["a"], lj["aa"] = "1", "2"
				case 1: // quoted but not escaped
					li["a"] = `1",aa="2`
					lj["a"], lj["aa"] = "1", "2"
				default: // concatenation without separators
					li["ab"] = "1"
					lj["a"] = "b1"
				}
				ds.Recs[i].Labels, ds.Recs[j].Labels = li, lj
				c.Count("forced_adversarial_pairs", 1)
			}
		}
		unknown, undecided := 0, 0
		q := genLogQuery(rng, ds, genOpts{Distinct: true, MaxStages: 3}, &unknown, &undecided)
		k := rng.Intn(3)
		for i := 0; i < k; i++ {
			pushStage(&q, genRewriteStage(rng, ds, false, false))
		}
		if rng.Chance(1, 3) {
			pushStage(&q, stLabelFilter(genPred(rng, ds, 1), &unknown))
		}
		if msg && rng.Chance(3, 4) {
			// without this every entry would be alone in its stream: the engine exposes the (unique) line as label msg
			pushStage(&q, stDrop([]nameOrMatcher{{Name: "msg"}}))
		}
		if (ds.Format == "json" || ds.Format == "mixed") && len(q.Stages) > 0 && q.Stages[0].Kind == "json" && rng.Chance(1, 4) {
			// nothing but typed labels left (numbers, booleans as | json exposes them): streams are told
			// apart by their values all the same
			pushStage(&q, stKeep([]nameOrMatcher{{Name: "status"}, {Name: "ok"}}))
			c.Count("typed_only_label_sets", 1)
		}
		text := q.Text()
		model := q.RunModel(ds.Recs, msg)
		if unknown > 0 || undecided > 0 {
			c.Count("discarded_undecided", 1)
			return
		}
		N := len(model)
		limits := []int{-5, -1, 0, 1, N - 1, N, N + 1, 2 * N}
		for _, L := range limits {
			p := logRangeParams(n)
			p.Limit = L
			mq := &MemQuerier{Recs: ds.Recs, ErrAfter: -1}
			res, err := evalQuery(mq, text, p)
			c.Eval(1)
			det := func() map[string]any {
				return map[string]any{"query": text, "records": ds.Recs, "limit": L, "matching": N, "expected_all": model, "result": res}
			}
			if err != nil {
				c.Fail("", fmt.Sprintf("query failed: %s: %v", text, err), det())
				return
			}
			// 1. partition by label set
			seen := map[string]int{}
			total := 0
			for si, s := range res.Streams {
				key := labelKey(s.Labels)
				if prev, dup := seen[key]; dup {
					c.Fail("", fmt.Sprintf("streams %d and %d carry the same label set %s", prev, si, key), det())
					return
				}
				seen[key] = si
				if len(s.Entries) == 0 {
					c.Fail("", "empty stream "+key+" in result", det())
					return
				}
				for i := 1; i < len(s.Entries); i++ {
					if s.Entries[i].TS < s.Entries[i-1].TS {
						c.Fail("", fmt.Sprintf("stream %s not in timestamp order at entry %d", key, i), det())
						return
					}
				}
				total += len(s.Entries)
			}
			// 2./4./5. expected set
			want := model
			if L > 0 && L < N {
				want = model[:L] // RunModel returns entries in time order
			}
			if total != len(want) {
				c.Fail("", fmt.Sprintf("limit %d: %d entries returned, expected %d (matching records: %d)", L, total, len(want), N), det())
				return
			}
			got, dup := flattenStreams(res)
			if dup != "" {
				c.Fail("", dup, det())
				return
			}
			if m := compareEntries(want, got, true); m != "" {
				c.Fail("", fmt.Sprintf("limit %d %s: %s", L, text, m), det())
				return
			}
			c.Count("limit_checks", 1)
			c.Max("streams_in_one_result", int64(len(res.Streams)))
			if len(res.Streams) >= 2 || (L > 0 && L < N) {
				c.Nontrivial(fmt.Sprintf("%d|%d|%s", c.Idx, L, text))
			}
			if L > 0 && L < N {
				c.Count("truncating_limits", 1)
			}
			if L <= 0 {
				c.Count("streams", len(res.Streams))
				// adversarial pairs: different label sets that a naive key would merge
				keys := make([]string, 0, len(seen))
				for k := range seen {
					keys = append(keys, k)
				}
				sort.Strings(keys)
				naive := map[string]bool{}
				for _, s := range res.Streams {
					var parts []string
					for k, v := range s.Labels {
						parts = append(parts, k+"="+v)
					}
					sort.Strings(parts)
					nk := strings.Join(parts, ",")
					if naive[nk] {
						c.Count("colliding_looking_label_sets", 1)
					}
					naive[nk] = true
				}
			}
		}
		for _, kd := range q.Kinds() {
			c.Count("stage:"+kd, 1)
		}
		if c.Idx < 4 {
			c.Sample("partition", map[string]any{"query": text, "matching": N, "limits": limits})
		}
	})
	// the same over the Docker storage: several containers merged, records of one stream possibly
	// arriving out of timestamp order (a container whose clock stepped back)
	r.Phase("containers", r.N(1200, 300000), func(c *vk.Case) {
		rng := c.Rng
		inv := genMergeInventory(rng, rng.Range(1, 7), 8)
		if c.Idx%8 == 3 {
			// a host with many matching containers: every one of them is read, however many requests that takes
			inv = genMergeInventory(rng, vk.Pick(rng, []int{9, 12, 17, 24, 33, 40}), 3)
			c.Count("container_cases_with_9plus_containers", 1)
		}
		ordered := true
		var all []int64
		// records may be identical across replicas and repeated inside one container: count them
		type recKey struct {
			cid, line string
			ts        int64
		}
		written := map[recKey]int{}
		idxOf := map[string]string{}
		byID := map[string]CSpec{}
		for _, cs := range inv {
			byID[cs.ID] = cs
			idxOf[cs.ID] = cs.Labels["idx"]
			for j, f := range cs.Frames {
				if j > 0 && f.TS < cs.Frames[j-1].TS {
					ordered = false
				}
				all = append(all, f.TS)
				written[recKey{cs.ID, f.Body, f.TS}]++
			}
		}
		sort.Slice(all, func(i, j int) bool { return all[i] < all[j] })
		N := len(all)
		// every line carries its text under the calibrated message label, which would make each entry
		// its own stream: drop it so that a stream is a container
		ctrQuery := `{container=~".+"}`
		// a stage that rewrites a label every record of a container inherits from the container's shared
		// resource: each entry must get the rewrite exactly once
		rewrite := rng.Chance(1, 3)
		if rewrite {
			ctrQuery += ` | label_format idx="{{ .idx }}-x"`
		}
		if msg {
			ctrQuery += " | drop msg"
		}
		limits := []int{-1, 0}
		if ordered {
			// "the first L in time order" is only defined by arrival when arrival is time order
			limits = append(limits, 1, 2, N/2, N-1, N, N+3)
		}
		for _, L := range limits {
			fd := newFakeDocker(inv)
			res, err := evalQuery(dockerQuerier(fd), ctrQuery, EvalP{Start: 1600000000e9, End: 1800000000e9, Step: time.Second, Limit: L})
			c.Eval(1)
			det := map[string]any{"inventory": inv, "limit": L, "result": res, "per_container_ordered": ordered}
			if err != nil {
				c.Fail("", fmt.Sprintf("limit %d: query failed: %v", L, err), det)
				return
			}
			wantN := N
			if L > 0 && L < N {
				wantN = L
			}
			seenSets := map[string]bool{}
			returned := map[recKey]int{}
			var gotTS []int64
			for _, st := range res.Streams {
				k := labelKey(st.Labels)
				if seenSets[k] {
					c.Fail("", fmt.Sprintf("limit %d: two streams share label set %s", L, k), det)
					return
				}
				seenSets[k] = true
				// a stream is a container here: it carries that container's labels and nothing else
				if cs, ok := byID[st.Labels["container_id"]]; ok {
					wantL, _, _ := expectedContainerLabels3(cs)
					if rewrite {
						wantL["idx"] += "-x"
					}
					if !msg {
						delete(st.Labels, "msg")
					}
					if !mapsEqual(wantL, st.Labels) {
						c.Fail("", fmt.Sprintf("limit %d: stream %s does not carry exactly the labels of container %s: %s (query %s)", L, k, cs.ID, labelKey(wantL), ctrQuery), det)
						return
					}
					c.Count("container_stream_label_sets_checked", 1)
				}
				for i, e := range st.Entries {
					if want := idxOf[st.Labels["container_id"]]; rewrite && st.Labels["idx"] != want+"-x" || !rewrite && st.Labels["idx"] != want {
						c.Fail("", fmt.Sprintf("limit %d: stream of container %s carries idx=%q (query %s)", L, st.Labels["container_id"], st.Labels["idx"], ctrQuery), det)
						return
					}
					k := recKey{st.Labels["container_id"], e.Line, e.TS}
					returned[k]++
					if returned[k] > written[k] {
						c.Fail("", fmt.Sprintf("limit %d: entry (%d, %q) appears %d times in the stream of container %q, which wrote it %d times", L, e.TS, e.Line, returned[k], k.cid, written[k]), det)
						return
					}
					if i > 0 && st.Entries[i-1].TS > e.TS {
						c.Fail("", fmt.Sprintf("limit %d: stream %s not in timestamp order at %q (%d after %d)", L, k, e.Line, e.TS, st.Entries[i-1].TS), det)
						return
					}
					gotTS = append(gotTS, e.TS)
				}
			}
			if len(gotTS) != wantN {
				c.Fail("", fmt.Sprintf("limit %d: %d entries returned, expected %d of %d", L, len(gotTS), wantN, N), det)
				return
			}
			sort.Slice(gotTS, func(i, j int) bool { return gotTS[i] < gotTS[j] })
			for i := range gotTS {
				if gotTS[i] != all[i] {
					c.Fail("", fmt.Sprintf("limit %d: returned entries are not the first %d in time order (timestamp #%d is %d, expected %d)", L, wantN, i, gotTS[i], all[i]), det)
					return
				}
			}
			c.Count("container_limit_checks", 1)
			if L > 0 && L < N && len(inv) >= 3 {
				c.Count("container_truncating_limits_3plus", 1)
				c.Nontrivial(fmt.Sprintf("ctr|%d|%d", c.Idx, L))
			}
			for _, st := range res.Streams {
				c.Max("entries_in_one_container_stream", int64(len(st.Entries)))
			}
			if !ordered && N > 0 {
				c.Count("out_of_order_arrivals", 1)
				c.Nontrivial(fmt.Sprintf("ooo|%d|%d", c.Idx, L))
			}
		}
	})
	r.Require("container_truncating_limits_3plus", 300)
	r.Require("container_cases_with_9plus_containers", 100)
	r.Require("out_of_order_arrivals", 100)
	// "every entry sits in the stream carrying exactly its labels" includes the labels the engine adds
	// itself (__error__, __error_details__): each record is evaluated alone, which gives its final
	// label set, and then all of them together, where its stream must carry exactly that set
	r.Phase("errorstreams", r.N(150, 20000), func(c *vk.Case) {
		rng := c.Rng
		broken := []string{`{"a":1`, `{"a" 1}`, `{"a":1,}`, `GET /healthz 200`, `POST /login 302`, `[1,2]`, `{"a":{"b":`, `{a:1}`, `{"k":oops}`, `a="unterminated`, `{"_entry":"x","0k":"v"}`,
			// logfmt keys that are not identifiers next to their look-alikes: two different label sets
			`user.id=7 op=x`, `user_id=7 op=x`, `user.id=7 user_id=8 op=x`, `9lives=1 op=x`, `_9lives=1 op=x`,
			// broken in the middle of a nested object / array, after members that were fine
			`{"n":2,"a":{"b":"v"},"req":{"dur":`, `{"a":{"b":"v","c":[1,{"d":`, `{"meta":{"level":"warn"},"a":{"b":`}
		n := rng.Range(3, 10)
		var recs []Rec
		for i := 0; i < n; i++ {
			line := vk.Pick(rng, broken)
			if rng.Chance(1, 3) {
				line = vk.Pick(rng, []string{`{"a":1,"lvl":"info"}`, `{"a":{"b":"v1"},"lvl":"info"}`, `{"meta":{"level":"warn"},"a":{"b":2}}`, `{"a":{"b":"v3"},"meta":{"level":"error"}}`})
			}
			recs = append(recs, Rec{TS: logT0 + int64(i+1)*1e9, Line: line, Labels: map[string]string{"app": "x"}})
		}
		stage := vk.Pick(rng, []string{"| json", "| json a, lvl", "| logfmt", "| unpack", `| json x="a.b"`, `| json x="a.b", l="meta.level"`, `| json x="a.b", l="meta.level"`}) + vk.Pick(rng, []string{" | drop msg", " | drop msg", " | keep app, __error__, __error_details__", ` | label_format msg="m"`})
		if c.Idx%3 == 0 {
			// no stage at all: the label set is what the storage says about the record, and a record with
			// an empty line carries no line label -- not the one of its predecessor
			stage = vk.Pick(rng, []string{"", "", `|= ""`, "| drop nosuch"})
			for i := range recs {
				recs[i].Line = vk.Pick(rng, []string{"", "", "x", "x", "y z", "\n",
					// lines that differ only in bytes that are not valid UTF-8 (Latin-1 text), next to the replacement character
					"caf\xe9 ouvert", "caf\xe8 ouvert", "caf\ufffd ouvert", "\xff", "\xfe"})
			}
			c.Count("stage_less_queries", 1)
		}
		query := `{app="x"} ` + stage
		alone := map[int64]map[string]string{}
		for _, rec := range recs {
			res, err := evalQuery(&MemQuerier{Recs: []Rec{rec}, ErrAfter: -1}, query, logRangeParams(n+1))
			c.Eval(1)
			if err != nil || len(res.Streams) != 1 || len(res.Streams[0].Entries) != 1 {
				c.Fail("", fmt.Sprintf("%s over the single line %q: err=%v, %d streams", query, rec.Line, err, len(res.Streams)), map[string]any{"query": query, "line": rec.Line})
				return
			}
			alone[rec.TS] = res.Streams[0].Labels
		}
		res, err := evalQuery(&MemQuerier{Recs: recs, ErrAfter: -1}, query, logRangeParams(n+1))
		c.Eval(1)
		det := map[string]any{"query": query, "records": recs, "labels_when_alone": alone, "result": res}
		if err != nil {
			c.Fail("", query+" failed: "+err.Error(), det)
			return
		}
		seenSets := map[string]bool{}
		total := 0
		for _, st := range res.Streams {
			k := labelKey(st.Labels)
			if seenSets[k] {
				c.Fail("", "two streams share label set "+k, det)
				return
			}
			seenSets[k] = true
			for _, e := range st.Entries {
				total++
				if want, ok := alone[e.TS]; !ok || !mapsEqual(want, st.Labels) {
					c.Fail("", fmt.Sprintf("%s: entry ts=%d line %q sits in stream %s, its own labels are %s", query, e.TS, e.Line, k, labelKey(want)), det)
					return
				}
			}
		}
		if total != n {
			c.Fail("", fmt.Sprintf("%s: %d entries for %d records", query, total, n), det)
			return
		}
		c.Count("error_label_stream_checks", 1)
		if len(res.Streams) >= 2 {
			c.Nontrivial(fmt.Sprintf("errorstreams|%d", c.Idx))
		}
	})
	r.Require("error_label_stream_checks", 100)
	r.Require("limit_checks", 4000)
	r.Require("truncating_limits", 500)
	phaseFlaky(r, "C08")
	r.Require("streams", 2000)
}

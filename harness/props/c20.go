//go:build verif

package props

import (
	"slices"
	"encoding/json"
	"fmt"
	"sort"
	"strings"
	"time"
	"unicode/utf8"

	"github.com/tdakkota/docker-logql/internal/otelstorage"
	"github.com/tdakkota/docker-logql/internal/zzverif/vk"
)

var c20Alphabet = []string{"a", "Z", "0", "9", "_", ".", "-", "/", " ", "é", "世", "\xff"}

var c20SpecialKeys = []string{"container.name", "container-id", "container", "container/image", "container state",
	"duration.seconds", "duration_seconds", "duration", "bytes", "rate", "count-over-time", "label.replace", "sum", "topk", "ip", "vector", "avg_over_time", "first-over-time",
	"On", "By", "OR", "Offset", "JSON", "Keep", "Group_Left", "Line-Format", "Sum", "IP", // case variants of keywords are ordinary names
	// the short names docker ps --filter and Compose use: as Docker label keys they are labels of their own
	"id", "name", "image", "state", "status", "label", "service", "project", "health", "network", "command", "created", "names", "ports",
	// names the engine also gives to fields of a record (round 18): as Docker label keys they are the container's labels
	"msg", "level", "trace_id", "span.id", "severity", "body", "timestamp"}

// words of the grammar that can never be read as a label name inside {...}; function and conversion
// names (rate, sum, bytes, duration_seconds, ip, ...) are ordinary identifiers unless followed by "("
var c20Keywords = map[string]bool{}

func init() {
	for _, w := range strings.Fields(`unwrap by without bool offset on ignoring group_left group_right or and unless
 json regexp logfmt unpack pattern label_format line_format decolorize distinct drop keep`) {
		c20Keywords[w] = true
	}
	register("C20", "exploration", 5*time.Minute, 30*time.Minute, runC20)
}

func c20CheckKey(c *vk.Case, k string) {
	c.Eval(1)
	out := otelstorage.KeyToLabel(k)
	rep, pre := modelSanitise(k)
	fail := func(what string) {
		c.Fail("", fmt.Sprintf("KeyToLabel(%q)=%q: %s", k, out, what), map[string]any{"key": k, "key_bytes": []byte(k), "out": out, "model_replaced": rep, "model_prefixed": pre})
	}
	if !validLabelName(out) {
		fail("not a valid LogQL label name")
		return
	}
	if validLabelName(k) {
		if out != k {
			fail("valid name was changed")
		}
	} else {
		c.Nontrivial(k)
		c.Count("keys_changed", 1)
	}
	if out != rep && out != pre {
		fail("not the rune-wise replacement of offending characters by '_'")
		return
	}
	if again := otelstorage.KeyToLabel(out); again != out {
		fail(fmt.Sprintf("not idempotent: second application gives %q", again))
	}
}

func runC20(r *vk.Run) {
	maxLen := r.N(4, 6)
	r.SetRule("phase enum: every non-empty string of length<=L over the 12-symbol alphabet {a,Z,0,9,_,.,-,/,space,é,世,0xFF} (L=4 quick, 6 thorough) through KeyToLabel; " +
		"non-trivial = the key is not already a valid label name (distinct keys counted). phase docker: random inventories whose containers carry Docker label k=v, " +
		"selector {sanitised(k)=\"v\"} (sanitised by the harness's own model) must open exactly the containers carrying it. phase json: key k of a JSON line must appear as label sanitised(k) after bare `| json`.")
	r.Assume("label-name validity is [A-Za-z_][A-Za-z0-9_]*", "leading digit may be replaced or '_'-prefixed (suite pins prefix)",
		"keys whose sanitised form is a grammar keyword (by, without, json, drop, ...) or collides with another key of the same container are excluded (counted); function/conversion names (rate, bytes, duration_seconds, ...) and names of built-in container labels are NOT excluded: the Docker label must be addressable under them")
	r.SetExhaustive(true)
	n := len(c20Alphabet)

	// exhaustive enumeration, one case per (length, first symbol)
	type job struct{ length, first int }
	var jobs []job
	for l := 1; l <= maxLen; l++ {
		for f := 0; f < n; f++ {
			jobs = append(jobs, job{l, f})
		}
	}
	r.Phase("enum", len(jobs), func(c *vk.Case) {
		j := jobs[c.Idx]
		idx := make([]int, j.length)
		idx[0] = j.first
		for {
			k := ""
			for _, i := range idx {
				k += c20Alphabet[i]
			}
			c20CheckKey(c, k)
			c.Count("keys_enumerated", 1)
			if c.Idx == 30 && k == "0./ " {
				c.Sample("enum", map[string]any{"key": k, "out": otelstorage.KeyToLabel(k)})
			}
			// increment positions 1..len-1
			p := j.length - 1
			for p >= 1 {
				idx[p]++
				if idx[p] < n {
					break
				}
				idx[p] = 0
				p--
			}
			if p < 1 {
				break
			}
		}
	})

	// random longer keys, incl. arbitrary bytes
	r.Phase("random", r.N(2000, 2000000), func(c *vk.Case) {
		var k string
		if c.Rng.Chance(1, 3) {
			k = string(c.Rng.Bytes(c.Rng.Range(1, 24)))
		} else {
			k = randKey(c.Rng, c20Alphabet, 6, 24)
		}
		c20CheckKey(c, k)
		c.Count("random_keys", 1)
		if c.Idx < 2 {
			c.Sample("random", map[string]any{"key": k, "out": otelstorage.KeyToLabel(k)})
		}
	})

	// selection through the Docker storage
	r.Phase("docker", r.N(1500, 600000), func(c *vk.Case) {
		rng := c.Rng
		nc := rng.Range(2, 6)
		vals := []string{"v", "v1", "", "x y", "v\"q", "é"}
		var keyPool []string
		special := ""
		for i := 0; i < 4; i++ {
			keyPool = append(keyPool, randKey(rng, c20Alphabet, 1, 10))
		}
		if rng.Chance(1, 4) {
			// keys whose sanitised name is one of the container's built-in labels or a word the query
			// language also uses as a function / conversion name
			special = vk.Pick(rng, c20SpecialKeys)
			keyPool[rng.Intn(len(keyPool))] = special
		}
		var inv []CSpec
		for i := 0; i < nc; i++ {
			cs := CSpec{ID: fmt.Sprintf("id%02d", i), Name: fmt.Sprintf("/c%d", i), Image: "img", State: "running", Labels: map[string]string{},
				Frames: []Frame{{Type: 1, TS: int64(1700000000+i) * 1e9, Body: fmt.Sprintf("line-%d", i)}}}
			for _, k := range keyPool {
				if rng.Bool() {
					cs.Labels[k] = vk.Pick(rng, vals)
				}
			}
			if c.Idx%8 == 5 {
				// a container as real deployments label it: dozens of labels (compose, OCI image annotations,
				// a reverse proxy's routing rules) around the ones under test -- every one of them counts
				for j := 0; j < 45; j++ {
					cs.Labels[fmt.Sprintf("%s%02d.filler", vk.Pick(rng, []string{"aa.", "org.opencontainers.image.", "traefik.http.routers.r", "zz-", "M"}), j)] = "f"
				}
			}
			inv = append(inv, cs)
		}
		if c.Idx%8 == 5 {
			c.Count("containers_with_dozens_of_labels", 1)
		}
		k := vk.Pick(rng, keyPool)
		v := vk.Pick(rng, vals)
		if rng.Chance(1, 4) {
			// spellings of one name spread over the containers of one listing: each container carries
			// exactly one of them, so nothing collides inside any container
			w := vk.Pick(rng, []string{"app", "svc", "a", "x9", "team"}) + vk.Pick(rng, []string{"", "9"})
			twins := []string{w + ".name", w + "_name", w + "-name", w + "/name", w + " name"}
			for i := range inv {
				for _, t := range twins {
					delete(inv[i].Labels, t)
				}
				inv[i].Labels[twins[(i+c.Idx)%len(twins)]] = vk.Pick(rng, []string{"v", "v1", "x y"})
			}
			k = vk.Pick(rng, twins)
			v = vk.Pick(rng, []string{"v", "v1", "x y"})
			c.Count("spellings_spread_over_containers", 1)
		}
		if special != "" && rng.Bool() {
			k = special
			if rng.Bool() {
				v = ""
			}
		}
		_, sk := modelSanitise(k)
		if c20Keywords[sk] {
			c.Count("excluded_reserved_word", 1)
			return
		}
		if reservedWords[sk] {
			c.Count("function_name_as_label", 1)
		}
		// precondition: no collisions in any container
		want := []string{}
		for _, cs := range inv {
			m, keyClash, builtinClash := expectedContainerLabels3(cs)
			if keyClash {
				// two keys of one container share a sanitised name: which value the name carries is not stated,
				// but it is the same at every listing -- the selection is repeated over fresh label maps
				c.Count("excluded_collision", 1)
				query := fmt.Sprintf("{%s=%s}", sk, quoteLogQL(v))
				first := ""
				for rep := 0; rep < 12; rep++ {
					inv2 := make([]CSpec, len(inv))
					for i, cs2 := range inv {
						inv2[i] = cs2
						inv2[i].Labels = map[string]string{}
						for lk, lv := range cs2.Labels {
							inv2[i].Labels[lk] = lv
						}
					}
					fd := newFakeDocker(inv2)
					_, err := evalQuery(dockerQuerier(fd), query, EvalP{Start: 1600000000e9, End: 1800000000e9, Step: time.Second, Limit: -1})
					c.Eval(1)
					got := fmt.Sprint(fd.OpenedIDs(), err != nil)
					if first == "" {
						first = got
					} else if got != first {
						c.Fail("", fmt.Sprintf("selector %s over containers with colliding keys selected %s at one listing and %s at another", query, first, got), map[string]any{"inventory": inv, "query": query})
						return
					}
				}
				c.Count("collision_selections_repeated", 1)
				// whichever of the colliding keys names the label, the name still carries ONE of their values:
				// a container with colliding keys is selected by {name="v"} for at least one of those values
				for _, cs2 := range inv {
					var vals []string
					for lk, lv := range cs2.Labels {
						if _, s2 := modelSanitise(lk); s2 == sk {
							vals = append(vals, lv)
						}
					}
					if len(vals) < 2 {
						continue
					}
					sort.Strings(vals)
					hit := false
					for _, cand := range vals {
						fd := newFakeDocker(inv)
						_, err := evalQuery(dockerQuerier(fd), fmt.Sprintf("{%s=%s}", sk, quoteLogQL(cand)), EvalP{Start: 1600000000e9, End: 1800000000e9, Step: time.Second, Limit: -1})
						c.Eval(1)
						if err == nil && slices.Contains(fd.OpenedIDs(), cs2.ID) {
							hit = true
							break
						}
					}
					if !hit {
						c.Fail("", fmt.Sprintf("container %s carries keys sanitising to %s with values %q, but {%s=\"v\"} selects it for none of them", cs2.ID, sk, vals, sk), map[string]any{"inventory": inv, "name": sk, "values": vals})
						return
					}
					c.Count("collision_values_addressable", 1)
				}
				return
			}
			if builtinClash {
				c.Count("docker_label_named_like_builtin", 1)
			}
			// {x=""} matches an empty-valued label and (C02's subject) a container lacking the label; the
			// Docker label's own value counts, also when it is empty and the name is a built-in one
			if hv, has := m[sk]; (has && hv == v) || (!has && v == "") {
				want = append(want, cs.ID)
			}
		}
		if v == "" {
			c.Count("empty_value_selections", 1)
		}
		sort.Strings(want)
		fd := newFakeDocker(inv)
		query := fmt.Sprintf("{%s=%s}", sk, quoteLogQL(v))
		res, err := evalQuery(dockerQuerier(fd), query, EvalP{Start: 1600000000e9, End: 1800000000e9, Step: time.Second, Limit: -1})
		c.Eval(1)
		c.Count("selector_round_trips", 1)
		detail := map[string]any{"inventory": inv, "query": query, "key": k, "key_bytes": []byte(k), "sanitised": sk, "value": v, "want_ids": want}
		if err != nil {
			detail["error"] = err.Error()
			c.Fail("", fmt.Sprintf("query %s failed: %v", query, err), detail)
			return
		}
		got := fd.OpenedIDs()
		detail["opened_ids"] = got
		if fmt.Sprint(got) != fmt.Sprint(want) {
			c.Fail("", fmt.Sprintf("selector %s opened containers %v, expected %v", query, got, want), detail)
			return
		}
		if len(want) > 0 {
			c.Nontrivial("docker:" + k + "=" + v)
			c.Count("selections_nonempty", 1)
		}
		lines := map[string]int{}
		for _, s := range res.Streams {
			// a selector {msg=""} also selects containers lacking the Docker label; on their records the name
			// then shows the record's own field (the line text), which is not this property's subject
			recordField := sk == "msg" || sk == "level" || sk == "trace_id" || sk == "span_id"
			if s.Labels[sk] != v && !(v == "" && recordField) {
				detail["stream"] = s
				c.Fail("", fmt.Sprintf("returned stream lacks %s=%q", sk, v), detail)
				return
			}
			for _, e := range s.Entries {
				lines[e.Line]++
			}
		}
		// selected means its records come back: every container of the selection wrote exactly one line
		for _, id := range want {
			l := "line-" + strings.TrimLeft(strings.TrimPrefix(id, "id"), "0")
			if id == "id00" {
				l = "line-0"
			}
			if lines[l] != 1 {
				detail["lines"] = lines
				c.Fail("", fmt.Sprintf("selector %s: container %s was opened but its line %q came back %d times", query, id, l, lines[l]), detail)
				return
			}
			c.Count("selected_lines_returned", 1)
		}
		if len(lines) != len(want) {
			detail["lines"] = lines
			c.Fail("", fmt.Sprintf("selector %s: %d distinct lines returned for %d selected containers", query, len(lines), len(want)), detail)
			return
		}
		if c.Idx < 2 {
			c.Sample("docker", map[string]any{"query": query, "key": k, "opened": got})
		}
	})

	// JSON keys through bare `| json`
	r.Phase("json", r.N(1500, 600000), func(c *vk.Case) {
		rng := c.Rng
		var k string
		for tries := 0; ; tries++ {
			k = randKey(rng, c20Alphabet[:11], 1, 10) // valid UTF-8 only: encoding/json would rewrite stray bytes
			if utf8.ValidString(k) {
				break
			}
		}
		_, sk := modelSanitise(k)
		doc, _ := json.Marshal(map[string]string{k: "val-" + fmt.Sprint(c.Idx)})
		labels := map[string]string{"app": "x"}
		if sk != "app" && c.Idx%3 == 1 {
			// the record already carries a label of the sanitised name (a Docker label a.b next to the JSON key
			// a_b, a built-in name): the key still becomes THAT label, with the member's value
			labels[sk] = "old"
			c.Count("json_keys_meeting_an_existing_label", 1)
		}
		mq := &MemQuerier{Recs: []Rec{{TS: 1700000000e9, Line: string(doc), Labels: labels}}, ErrAfter: -1}
		res, err := evalQuery(mq, `{app="x"} | json`, EvalP{Start: 1600000000e9, End: 1800000000e9, Step: time.Second, Limit: -1})
		c.Eval(1)
		c.Count("json_keys", 1)
		detail := map[string]any{"line": string(doc), "key": k, "sanitised": sk}
		if err != nil {
			c.Fail("", "bare | json query failed: "+err.Error(), detail)
			return
		}
		if len(res.Streams) != 1 || len(res.Streams[0].Entries) != 1 {
			detail["result"] = res
			c.Fail("", "bare | json did not return the single line", detail)
			return
		}
		lbl := res.Streams[0].Labels
		detail["labels"] = lbl
		if lbl[sk] != "val-"+fmt.Sprint(c.Idx) {
			c.Fail("", fmt.Sprintf("JSON key %q not exposed as label %q", k, sk), detail)
			return
		}
		for name, v := range lbl {
			if name != sk && v == "val-"+fmt.Sprint(c.Idx) {
				c.Fail("", fmt.Sprintf("JSON key %q exposed under %q, not (only) under its sanitised name %q", k, name, sk), detail)
				return
			}
		}
		if _, bad := lbl["__error__"]; bad {
			c.Fail("", "well-formed JSON flagged __error__", detail)
			return
		}
		if !validLabelName(k) {
			c.Nontrivial("json:" + k)
		}
	})
	r.Require("keys_enumerated", 20000)
	r.Require("selector_round_trips", 300)
	r.Require("selections_nonempty", 50)
	r.Require("function_name_as_label", 20)
	r.Require("docker_label_named_like_builtin", 20)
	r.Require("json_keys_meeting_an_existing_label", 300)
	r.Require("containers_with_dozens_of_labels", 100)
}

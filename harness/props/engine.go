//go:build verif

package props

import (
	"context"
	"fmt"
	"sort"
	"strconv"
	"strings"
	"time"

	"github.com/tdakkota/docker-logql/internal/logql/logqlengine"
	"github.com/tdakkota/docker-logql/internal/lokiapi"
	"github.com/tdakkota/docker-logql/internal/otelstorage"
)

type EntryOut struct {
	TS   int64  `json:"ts"`
	Line string `json:"line"`
}

type StreamOut struct {
	Labels  map[string]string `json:"labels"`
	Entries []EntryOut        `json:"entries"`
}

type PointOut struct {
	T int64   `json:"t_ms"` // milliseconds
	V float64 `json:"v"`
	S string  `json:"s"` // value as printed by the engine
}

type SeriesOut struct {
	Labels map[string]string `json:"labels"`
	Points []PointOut        `json:"points"`
}

type EvalP struct {
	Start, End int64 // unix ns
	Step       time.Duration
	Limit      int
}

func (p EvalP) params() logqlengine.EvalParams {
	return logqlengine.EvalParams{
		Start: otelstorage.Timestamp(p.Start),
		End:   otelstorage.Timestamp(p.End),
		Step:  p.Step,
		Limit: p.Limit,
	}
}

func newEngine(q logqlengine.Querier) *logqlengine.Engine {
	return logqlengine.NewEngine(q, logqlengine.Options{})
}

// Result is a canonical, comparable copy of an engine result.
type Result struct {
	Kind    string      `json:"kind"` // streams | matrix | vector | scalar
	Streams []StreamOut `json:"streams,omitempty"`
	Series  []SeriesOut `json:"series,omitempty"`
}

func evalQuery(q logqlengine.Querier, query string, p EvalP) (Result, error) {
	data, err := newEngine(q).Eval(context.Background(), query, p.params())
	if err != nil {
		return Result{}, err
	}
	return convertResult(data)
}

func convertResult(data lokiapi.QueryResponseData) (Result, error) {
	var res Result
	switch data.Type {
	case lokiapi.StreamsResultQueryResponseData:
		res.Kind = "streams"
		for _, s := range data.StreamsResult.Result {
			so := StreamOut{Labels: map[string]string{}}
			for k, v := range s.Stream.Value {
				so.Labels[k] = v
			}
			for _, e := range s.Values {
				so.Entries = append(so.Entries, EntryOut{TS: int64(e.T), Line: e.V})
			}
			res.Streams = append(res.Streams, so)
		}
	case lokiapi.MatrixResultQueryResponseData:
		res.Kind = "matrix"
		for _, s := range data.MatrixResult.Result {
			so := SeriesOut{Labels: map[string]string{}}
			for k, v := range s.Metric.Value {
				so.Labels[k] = v
			}
			for _, pt := range s.Values {
				f, err := strconv.ParseFloat(pt.V, 64)
				if err != nil {
					return res, fmt.Errorf("unparsable sample value %q", pt.V)
				}
				so.Points = append(so.Points, PointOut{T: secToMs(pt.T), V: f, S: pt.V})
			}
			res.Series = append(res.Series, so)
		}
	case lokiapi.VectorResultQueryResponseData:
		res.Kind = "vector"
		for _, s := range data.VectorResult.Result {
			so := SeriesOut{Labels: map[string]string{}}
			for k, v := range s.Metric.Value {
				so.Labels[k] = v
			}
			f, err := strconv.ParseFloat(s.Value.V, 64)
			if err != nil {
				return res, fmt.Errorf("unparsable sample value %q", s.Value.V)
			}
			so.Points = append(so.Points, PointOut{T: secToMs(s.Value.T), V: f, S: s.Value.V})
			res.Series = append(res.Series, so)
		}
	case lokiapi.ScalarResultQueryResponseData:
		res.Kind = "scalar"
		f, err := strconv.ParseFloat(data.ScalarResult.Result.V, 64)
		if err != nil {
			return res, fmt.Errorf("unparsable scalar %q", data.ScalarResult.Result.V)
		}
		res.Series = []SeriesOut{{Labels: map[string]string{}, Points: []PointOut{{T: secToMs(data.ScalarResult.Result.T), V: f, S: data.ScalarResult.Result.V}}}}
	default:
		return res, fmt.Errorf("unknown result type %q", data.Type)
	}
	return res, nil
}

func secToMs(t float64) int64 {
	if t >= 0 {
		return int64(t*1000 + 0.5)
	}
	return int64(t*1000 - 0.5)
}

// labelKey renders a label map canonically and injectively (sorted, quoted).
func labelKey(m map[string]string) string {
	keys := make([]string, 0, len(m))
	for k := range m {
		keys = append(keys, k)
	}
	sort.Strings(keys)
	var sb strings.Builder
	sb.WriteByte('{')
	for i, k := range keys {
		if i > 0 {
			sb.WriteByte(',')
		}
		sb.WriteString(strconv.Quote(k))
		sb.WriteByte('=')
		sb.WriteString(strconv.Quote(m[k]))
	}
	sb.WriteByte('}')
	return sb.String()
}

// without returns a copy of m without the given keys.
func without(m map[string]string, keys ...string) map[string]string {
	out := make(map[string]string, len(m))
outer:
	for k, v := range m {
		for _, d := range keys {
			if k == d {
				continue outer
			}
		}
		out[k] = v
	}
	return out
}

// Canonical renders a result in an order-independent way (for run-to-run comparison).
func (r Result) Canonical() string {
	var parts []string
	for _, s := range r.Streams {
		es := append([]EntryOut(nil), s.Entries...)
		sort.SliceStable(es, func(i, j int) bool {
			if es[i].TS != es[j].TS {
				return es[i].TS < es[j].TS
			}
			return es[i].Line < es[j].Line
		})
		var sb strings.Builder
		sb.WriteString(labelKey(s.Labels))
		for _, e := range es {
			fmt.Fprintf(&sb, "|%d:%q", e.TS, e.Line)
		}
		parts = append(parts, sb.String())
	}
	for _, s := range r.Series {
		var sb strings.Builder
		sb.WriteString(labelKey(s.Labels))
		for _, p := range s.Points {
			fmt.Fprintf(&sb, "|%d:%s", p.T, p.S)
		}
		parts = append(parts, sb.String())
	}
	sort.Strings(parts)
	return r.Kind + "\n" + strings.Join(parts, "\n")
}

func copyMap(m map[string]string) map[string]string {
	out := make(map[string]string, len(m))
	for k, v := range m {
		out[k] = v
	}
	return out
}

func mapsEqual(a, b map[string]string) bool {
	if len(a) != len(b) {
		return false
	}
	for k, v := range a {
		if w, ok := b[k]; !ok || w != v {
			return false
		}
	}
	return true
}

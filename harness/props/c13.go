//go:build verif

package props

import (
	"fmt"
	"math"
	"regexp"
	"strings"
	"time"

	"github.com/tdakkota/docker-logql/internal/zzverif/vk"
)

func init() {
	register("C13", "exploration", 8*time.Minute, 60*time.Minute, runC13)
}

var c13Ops = []string{"^", "*", "/", "%", "+", "-", "==", "!=", ">", ">=", "<", "<=", "and", "unless", "or"}

func c13Level(op string) int {
	switch op {
	case "^":
		return 6
	case "*", "/", "%":
		return 5
	case "+", "-":
		return 4
	case "==", "!=", ">", ">=", "<", "<=":
		return 3
	case "and", "unless":
		return 2
	case "or":
		return 1
	}
	panic("bad op")
}

// ov is an optional value: a vector(p) operand yields one sample, set operators can make it vanish.
type ov struct {
	ok bool
	v  float64
}

func (a ov) String() string {
	if !a.ok {
		return "absent"
	}
	return fnum(a.v)
}

func ovEqual(a, b ov) bool {
	if a.ok != b.ok {
		return false
	}
	return !a.ok || vk_almost(a.v, b.v, 1e-12)
}

func c13Apply(op string, l, r ov, cmpFalse string) ov {
	switch op {
	case "and":
		if l.ok && r.ok {
			return l
		}
		return ov{}
	case "or":
		if l.ok {
			return l
		}
		return r
	case "unless":
		if l.ok && !r.ok {
			return l
		}
		return ov{}
	}
	if !l.ok || !r.ok {
		return ov{}
	}
	if isCmp(op) {
		if cmpF(op, l.v, r.v) {
			return ov{true, 1}
		}
		if cmpFalse == "zero" {
			return ov{true, 0}
		}
		return ov{}
	}
	return ov{true, arith(op, l.v, r.v)}
}

// tree over operand indices
type c13Tree struct {
	leaf int
	op   int // index into ops
	l, r *c13Tree
}

// allTrees enumerates all binary trees over leaves [lo,hi] keeping leaf order; the root of the
// subtree spanning i..j applies ops[k] for the split after leaf k.
func allTrees(lo, hi int) []*c13Tree {
	if lo == hi {
		return []*c13Tree{{leaf: lo, op: -1}}
	}
	var out []*c13Tree
	for k := lo; k < hi; k++ {
		for _, l := range allTrees(lo, k) {
			for _, r := range allTrees(k+1, hi) {
				out = append(out, &c13Tree{op: k, l: l, r: r})
			}
		}
	}
	return out
}

func (t *c13Tree) eval(vals []float64, ops []string, mode string) ov {
	if t.op < 0 {
		return ov{true, vals[t.leaf]}
	}
	return c13Apply(ops[t.op], t.l.eval(vals, ops, mode), t.r.eval(vals, ops, mode), mode)
}

// text renders the tree fully parenthesised. extra > 0 adds redundant pairs (a pair around a pair, around
// a single operand, around the whole query), chosen by position: a group means the same however many
// pairs are written around it.
func (t *c13Tree) text(vals []float64, ops []string, root bool, extra int) string {
	if t.op < 0 {
		s := "vector(" + fnum(vals[t.leaf]) + ")"
		if extra > 0 && (t.leaf+extra)%5 == 0 {
			s = "(" + s + ")"
		}
		return s
	}
	s := t.l.text(vals, ops, false, extra) + " " + ops[t.op] + " " + t.r.text(vals, ops, false, extra)
	if !root {
		s = "(" + s + ")"
		if extra > 0 && (t.op+extra)%3 == 0 {
			s = "(" + s + ")"
		}
		if extra > 0 && (t.op+extra)%7 == 0 {
			s = "((" + s + "))"
		}
		return s
	}
	if extra > 0 && extra%4 == 0 {
		s = "(" + s + ")"
	}
	return s
}

// climb builds the tree of the unparenthesised chain: conventional (rightAssocAll=false: only ^ is
// right-associative) or the defect model of finding F13 (every level right-associative).
func climb(ops []string, rightAssocAll bool) *c13Tree {
	pos := 0
	var parse func(minLevel int) *c13Tree
	leaf := func() *c13Tree { t := &c13Tree{leaf: pos, op: -1}; return t }
	parse = func(minLevel int) *c13Tree {
		left := leaf()
		for pos < len(ops) && c13Level(ops[pos]) >= minLevel {
			k := pos
			lvl := c13Level(ops[k])
			pos++
			next := lvl + 1
			if ops[k] == "^" || rightAssocAll {
				next = lvl
			}
			right := parse(next)
			left = &c13Tree{op: k, l: left, r: right}
		}
		return left
	}
	return parse(0)
}

func chainText(vals []float64, ops []string) string {
	var sb strings.Builder
	for i, v := range vals {
		if i > 0 {
			sb.WriteString(" " + ops[i-1] + " ")
		}
		sb.WriteString("vector(" + fnum(v) + ")")
	}
	return sb.String()
}

func c13Engine(c *vk.Case, text string) (ov, error) {
	T := metricT0 + 10e9
	if len(text)%5 == 0 {
		// a fifth of the chains run as a 3-step range query: every step must report the same value
		res, err := evalQuery(&MemQuerier{ErrAfter: -1}, text, EvalP{Start: T, End: T + 4e9, Step: 2 * time.Second})
		c.Eval(1)
		c.Count("range_mode_chains", 1)
		if err != nil {
			return ov{}, err
		}
		if len(res.Series) == 0 {
			return ov{}, nil
		}
		if len(res.Series) != 1 || len(res.Series[0].Labels) != 0 {
			return ov{}, fmt.Errorf("unexpected result shape %+v", res)
		}
		pts := res.Series[0].Points
		if len(pts) != 3 {
			return ov{}, fmt.Errorf("range query over 3 steps returned %d points: %+v", len(pts), pts)
		}
		for _, p := range pts[1:] {
			if !vk_almost(p.V, pts[0].V, 0) {
				return ov{}, fmt.Errorf("steps of a constant expression differ: %+v", pts)
			}
		}
		return ov{true, pts[0].V}, nil
	}
	res, err := evalQuery(&MemQuerier{ErrAfter: -1}, text, EvalP{Start: T, End: T})
	c.Eval(1)
	if err != nil {
		return ov{}, err
	}
	if len(res.Series) == 0 {
		return ov{}, nil
	}
	if len(res.Series) != 1 || len(res.Series[0].Points) != 1 || len(res.Series[0].Labels) != 0 {
		return ov{}, fmt.Errorf("unexpected result shape %+v", res)
	}
	return ov{true, res.Series[0].Points[0].V}, nil
}

var leafRe = regexp.MustCompile(`vector\([0-9.e+-]+\)`)

func runC13(r *vk.Run) {
	r.SetRule("chains `vector(p1) op1 vector(p2) ...` of up to five prime operands joined by any of the 15 binary operators, evaluated as instant queries: (a) unparenthesised, against the harness's own conventional precedence-climbing evaluator over optional values " +
		"(^ right-assoc and tightest, then * / %, + -, comparisons, and/unless, or; equal levels left to right); (b) every full parenthesisation (all Catalan trees), against direct tree evaluation. " +
		"quick: all chains of <=3 operands + 3000 sampled chains of 4-5; thorough: ALL 54240 operator combinations of <=5 operands x 6 operand tuples, all parenthesisations for <=4 operands and for a third of the 5-operand chains. non-trivial = distinct chains for which at least two parenthesisations evaluate differently.")
	r.Assume("a false comparison without bool yields what calibration observed (0 or absent)", "known finding F13 is matched only by its exact defect model: correct levels, every level right-associative")
	env0, err := calibrateMetric()
	if err != nil {
		r.Inconclusive(err.Error())
		return
	}
	mode := env0.CmpFalse
	r.SetExtra("calibration", map[string]any{"cmp_false": mode})
	tuples := [][]float64{{2, 3, 5, 7, 11}, {13, 2, 7, 3, 5}}
	if r.Thorough() {
		tuples = append(tuples, []float64{7, 11, 2, 13, 3}, []float64{3, 2, 2, 5, 7}, []float64{5, 3, 11, 2, 2}, []float64{2, 5, 3, 3, 13})
	}

	checkChain := func(c *vk.Case, vals []float64, ops []string, withTrees bool) {
		n := len(vals)
		trees := allTrees(0, n-1)
		distinct := map[string]bool{}
		for _, t := range trees {
			distinct[t.eval(vals, ops, mode).String()] = true
		}
		nontrivial := len(distinct) >= 2
		text := chainText(vals, ops)
		conv := climb(ops, false).eval(vals, ops, mode)
		defect := climb(ops, true).eval(vals, ops, mode)
		got, err := c13Engine(c, text)
		c.Count("chains", 1)
		det := map[string]any{"query": text, "ops": ops, "operands": vals, "conventional": conv.String(), "right_assoc_model": defect.String(), "engine": got.String()}
		if err != nil {
			det["error"] = err.Error()
			c.Fail("", "chain failed: "+text+": "+err.Error(), det)
			return
		}
		if !ovEqual(got, conv) {
			key := ""
			if ovEqual(got, defect) {
				key = "F13"
			}
			c.Fail(key, fmt.Sprintf("%s = %s, conventional reading gives %s", text, got, conv), det)
		}
		if nontrivial {
			c.Nontrivial(text)
			c.Count("nontrivial_chains", 1)
		}
		if withTrees && n >= 3 {
			for ti, t := range trees {
				extra := 0
				if (c.Idx+ti)%3 == 0 {
					extra = 1 + (c.Idx+ti)%11
					c.Count("parenthesisations_with_redundant_pairs", 1)
				}
				ptext := t.text(vals, ops, true, extra)
				want := t.eval(vals, ops, mode)
				got, err := c13Engine(c, ptext)
				c.Count("parenthesisations", 1)
				if err != nil || !ovEqual(got, want) {
					c.Fail("", fmt.Sprintf("%s = %s (err=%v), expected %s: parentheses not honoured", ptext, got, err, want), map[string]any{"query": ptext, "expected": want.String(), "engine": got.String()})
					return
				}
			}
			// partially parenthesised: one inner pair grouped, the rest by precedence
			for k := 0; k+1 < n; k++ {
				sub := c13Apply(ops[k], ov{true, vals[k]}, ov{true, vals[k+1]}, mode)
				if !sub.ok || math.IsNaN(sub.v) || math.IsInf(sub.v, 0) {
					continue
				}
				var parts []string
				var rvals []float64
				var rops []string
				for i := 0; i < n; i++ {
					if i == k+1 {
						continue
					}
					last := i
					if i == k {
						parts = append(parts, "(vector("+fnum(vals[k])+") "+ops[k]+" vector("+fnum(vals[k+1])+"))")
						rvals = append(rvals, sub.v)
						last = k + 1
					} else {
						parts = append(parts, "vector("+fnum(vals[i])+")")
						rvals = append(rvals, vals[i])
					}
					if last < n-1 {
						parts = append(parts, ops[last])
						rops = append(rops, ops[last])
					}
				}
				ptext := strings.Join(parts, " ")
				want := climb(rops, false).eval(rvals, rops, mode)
				wantDefect := climb(rops, true).eval(rvals, rops, mode)
				got, err := c13Engine(c, ptext)
				c.Count("partial_parenthesisations", 1)
				if err != nil || !ovEqual(got, want) {
					key := ""
					if err == nil && ovEqual(got, wantDefect) {
						key = "F13"
					}
					c.Fail(key, fmt.Sprintf("%s = %s (err=%v), expected %s", ptext, got, err, want), map[string]any{"query": ptext, "expected": want.String(), "right_assoc_model": wantDefect.String(), "engine": got.String()})
				}
			}
		}
	}

	// exhaustive operator combinations
	maxN := r.N(3, 5)
	type job struct {
		n     int
		first int
		tuple int
	}
	var jobs []job
	for n := 2; n <= maxN; n++ {
		for f := 0; f < len(c13Ops); f++ {
			for t := range tuples {
				jobs = append(jobs, job{n, f, t})
			}
		}
	}
	r.SetExhaustive(true)
	r.Phase("exhaustive", len(jobs), func(c *vk.Case) {
		j := jobs[c.Idx]
		ops := make([]string, j.n-1)
		idx := make([]int, j.n-1)
		idx[0] = j.first
		for {
			for i, k := range idx {
				ops[i] = c13Ops[k]
			}
			checkChain(c, tuples[j.tuple][:j.n], append([]string(nil), ops...), j.n <= 3 || (c.Thorough() && (j.n == 4 || idx[len(idx)-1]%3 == 0)))
			p := len(idx) - 1
			for p >= 1 {
				idx[p]++
				if idx[p] < len(c13Ops) {
					break
				}
				idx[p] = 0
				p--
			}
			if p < 1 {
				break
			}
		}
		if c.Idx == 7 {
			c.Sample("exhaustive", map[string]any{"operands": tuples[j.tuple][:j.n], "first_op": c13Ops[j.first], "example": chainText(tuples[j.tuple][:j.n], ops)})
		}
	})

	r.Phase("sampled", r.N(3000, 400000), func(c *vk.Case) {
		n := c.Rng.Range(4, 5)
		ops := make([]string, n-1)
		for i := range ops {
			ops[i] = vk.Pick(c.Rng, c13Ops)
		}
		vals := append([]float64(nil), vk.Pick(c.Rng, tuples)[:n]...)
		vk.Shuffle(c.Rng, vals)
		checkChain(c, vals, ops, c.Rng.Chance(1, 4))
		if c.Idx < 3 {
			c.Sample("sampled", map[string]any{"query": chainText(vals, ops)})
		}
	})
	// the same groupings with operands that are read from the logs (each operand a count over its own
	// selector, so that both sides of every operator run a storage query): which operand is the left one
	// and which the right one is in the text, however the fetches are scheduled
	r.Phase("logleaves", r.N(400, 40000), func(c *vk.Case) {
		rng := c.Rng
		n := rng.Range(2, 4)
		counts := []float64{2, 3, 5, 7, 11, 13}
		vk.Shuffle(rng, counts)
		vals := counts[:n]
		ops := make([]string, n-1)
		for i := range ops {
			ops[i] = vk.Pick(rng, c13Ops)
		}
		trees := allTrees(0, n-1)
		t := trees[rng.Intn(len(trees))]
		text := leafRe.ReplaceAllStringFunc(t.text(vals, ops, true, 0), func(m string) string {
			return `sum(count_over_time({job="k` + m[len("vector("):len(m)-1] + `"}[1h]))`
		})
		var recs []Rec
		T := metricT0 + 10e9
		for _, v := range vals {
			// the first operand's log is by far the longest: its fetch is the slowest
			k := int(v)
			for i := 0; i < k; i++ {
				recs = append(recs, Rec{TS: T - int64(1+i)*1e9 - int64(k)*1000, Line: "x", Labels: map[string]string{"job": fmt.Sprintf("k%d", k)}})
			}
		}
		sortRecs2(recs)
		res, err := evalQuery(&MemQuerier{Recs: recs, ErrAfter: -1}, text, EvalP{Start: T, End: T})
		c.Eval(1)
		want := t.eval(vals, ops, env0.CmpFalse)
		det := map[string]any{"query": text, "conventional": want.String(), "result": res}
		if err != nil {
			c.Fail("", "query failed: "+text+": "+err.Error(), det)
			return
		}
		got := ov{}
		if len(res.Series) == 1 && len(res.Series[0].Points) == 1 {
			got = ov{true, res.Series[0].Points[0].V}
		} else if len(res.Series) != 0 {
			c.Fail("", fmt.Sprintf("%s: unexpected result shape", text), det)
			return
		}
		if !ovEqual(got, want) {
			c.Fail("", fmt.Sprintf("%s = %s, the grouping written gives %s", text, got, want), det)
			return
		}
		c.Count("log_leaf_chains", 1)
		c.Nontrivial("logleaves|" + text)
	})
	r.Require("log_leaf_chains", 300)

	// chains mixing vector(p) operands with scalar literals (`10 - vector(8) / 2`): same conventional
	// reading; chains in which two literals would meet directly (folded / unsupported) are skipped
	arithCmp := c13Ops[:12]
	r.Phase("scalars", r.N(3000, 300000), func(c *vk.Case) {
		rng := c.Rng
		n := rng.Range(2, 4)
		vals := append([]float64(nil), vk.Pick(rng, tuples)[:n]...)
		if rng.Chance(1, 4) {
			// 10 next to ^ and a number is a base and an exponent like any other (10 ^ 2 ^ x is 10 ^ (2 ^ x))
			vals = append([]float64(nil), vk.Pick(rng, [][]float64{{10, 2, 3, 5}, {3, 10, 2, 10}, {10, 10, 2, 3}, {2, 10, 3, 7}})[:n]...)
		}
		vk.Shuffle(rng, vals)
		isLit := make([]bool, n)
		nvec := 0
		for i := range isLit {
			isLit[i] = rng.Bool()
			if !isLit[i] {
				nvec++
			}
		}
		if nvec == 0 {
			isLit[rng.Intn(n)] = false
		}
		ops := make([]string, n-1)
		for i := range ops {
			ops[i] = vk.Pick(rng, arithCmp)
		}
		// operand text, optionally one parenthesised adjacent pair
		paren := -1
		if n >= 3 && rng.Bool() {
			paren = rng.Intn(n - 1)
		}
		if n >= 3 && rng.Chance(1, 8) {
			// a power tower that starts with two number literals, the first often 10: 10 ^ 2 ^ x
			at := rng.Intn(n - 2)
			vals[at], vals[at+1] = vk.Pick(rng, []float64{10, 10, 2, 100}), vk.Pick(rng, []float64{2, 3, 10})
			isLit[at], isLit[at+1], isLit[at+2] = true, true, false
			ops[at], ops[at+1] = "^", "^"
			paren = -1
			c.Count("literal_power_towers", 1)
		}
		operand := func(i int) string {
			if isLit[i] {
				return fnum(vals[i])
			}
			return "vector(" + fnum(vals[i]) + ")"
		}
		// build the conventional tree over the (possibly reduced) chain and check no literal meets a literal
		type node struct {
			lit bool
			v   ov
		}
		var evalTree func(t *c13Tree, vs []node, os []string, bad *bool) node
		evalTree = func(t *c13Tree, vs []node, os []string, bad *bool) node {
			if t.op < 0 {
				return vs[t.leaf]
			}
			l, rr := evalTree(t.l, vs, os, bad), evalTree(t.r, vs, os, bad)
			if l.lit && rr.lit {
				*bad = true
			}
			return node{lit: false, v: c13Apply(os[t.op], l.v, rr.v, mode)}
		}
		var parts []string
		var rnodes []node
		var rops []string
		for i := 0; i < n; i++ {
			if i == paren+1 && paren >= 0 {
				continue
			}
			last := i
			if i == paren {
				if isLit[i] && isLit[i+1] {
					c.Count("discarded_literal_meets_literal", 1)
					return
				}
				parts = append(parts, "("+operand(i)+" "+ops[i]+" "+operand(i+1)+")")
				rnodes = append(rnodes, node{lit: false, v: c13Apply(ops[i], ov{true, vals[i]}, ov{true, vals[i+1]}, mode)})
				last = i + 1
			} else {
				parts = append(parts, operand(i))
				rnodes = append(rnodes, node{lit: isLit[i], v: ov{true, vals[i]}})
			}
			if last < n-1 {
				parts = append(parts, ops[last])
				rops = append(rops, ops[last])
			}
		}
		text := strings.Join(parts, " ")
		badConv, badDef := false, false
		want := evalTree(climb(rops, false), rnodes, rops, &badConv).v
		wantDefect := evalTree(climb(rops, true), rnodes, rops, &badDef).v
		if badConv || badDef || len(rnodes) == 1 && rnodes[0].lit {
			c.Count("discarded_literal_meets_literal", 1)
			return
		}
		got, err := c13Engine(c, text)
		det := map[string]any{"query": text, "conventional": want.String(), "right_assoc_model": wantDefect.String(), "engine": got.String()}
		if err != nil {
			det["error"] = err.Error()
			c.Fail("", "chain with scalars failed: "+text+": "+err.Error(), det)
			return
		}
		if !ovEqual(got, want) {
			key := ""
			if ovEqual(got, wantDefect) {
				key = "F13"
			}
			c.Fail(key, fmt.Sprintf("%s = %s, conventional reading gives %s", text, got, want), det)
			return
		}
		c.Count("scalar_chains", 1)
		c.Nontrivial("s:" + text)
		if c.Idx < 3 {
			c.Sample("scalars", det)
		}
	})
	// set operators around sub-expressions that contain a number literal, and explicitly signed
	// exponents: three operands, two operators of different levels, so neither associativity nor
	// finding F13 plays a part and the conventional reading is the only one
	setOps3 := []string{"and", "or", "unless"}
	r.Phase("mixed", r.N(2000, 200000), func(c *vk.Case) {
		rng := c.Rng
		t := vk.Pick(rng, tuples)
		a, b, cc := t[rng.Intn(5)], t[rng.Intn(5)], t[rng.Intn(5)]
		va, vb, vc := ov{true, a}, ov{true, b}, ov{true, cc}
		A := vk.Pick(rng, arithCmp)
		S := vk.Pick(rng, setOps3)
		vec := func(x float64) string { return "vector(" + fnum(x) + ")" }
		var text string
		var want ov
		shape := rng.Intn(9)
		switch shape {
		case 0:
			text, want = vec(a)+" "+A+" "+fnum(b)+" "+S+" "+vec(cc), c13Apply(S, c13Apply(A, va, vb, mode), vc, mode)
		case 1:
			text, want = vec(a)+" "+S+" "+vec(b)+" "+A+" "+fnum(cc), c13Apply(S, va, c13Apply(A, vb, vc, mode), mode)
		case 2:
			text, want = "("+vec(a)+" "+A+" "+fnum(b)+") "+S+" "+vec(cc), c13Apply(S, c13Apply(A, va, vb, mode), vc, mode)
		case 3:
			text, want = vec(a)+" "+S+" ("+vec(b)+" "+A+" "+fnum(cc)+")", c13Apply(S, va, c13Apply(A, vb, vc, mode), mode)
		case 4:
			text, want = fnum(a)+" "+A+" "+vec(b)+" "+S+" "+vec(cc), c13Apply(S, c13Apply(A, va, vb, mode), vc, mode)
		case 5:
			text, want = vec(a)+" "+S+" "+fnum(b)+" "+A+" "+vec(cc), c13Apply(S, va, c13Apply(A, vb, vc, mode), mode)
		default:
			// a signed literal as exponent, followed or preceded by a multiplicative operator
			M := vk.Pick(rng, []string{"*", "/", "%"})
			sign := vk.Pick(rng, []string{"-", "+"})
			e := vk.Pick(rng, []float64{1, 2, 3})
			ev := e
			if sign == "-" {
				ev = -e
			}
			if shape%2 == 0 {
				text, want = vec(a)+" ^ "+sign+fnum(e)+" "+M+" "+vec(cc), c13Apply(M, c13Apply("^", va, ov{true, ev}, mode), vc, mode)
			} else {
				text, want = vec(a)+" "+M+" "+vec(b)+" ^ "+sign+fnum(e), c13Apply(M, va, c13Apply("^", vb, ov{true, ev}, mode), mode)
			}
		}
		got, err := c13Engine(c, text)
		if err != nil || !ovEqual(got, want) {
			c.Fail("", fmt.Sprintf("%s = %s (err=%v), conventional reading gives %s", text, got, err, want), map[string]any{"query": text, "expected": want.String(), "engine": got.String(), "shape": shape})
			return
		}
		c.Count("mixed_chains", 1)
		c.Seen("mixed_shapes", fmt.Sprint(shape))
	})
	r.Require("mixed_chains", 1000)
	r.Require("scalar_chains", 800)
	r.Require("chains", 400)
	r.Require("nontrivial_chains", 200)
	r.Require("parenthesisations", 400)
}

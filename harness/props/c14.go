//go:build verif

package props

import (
	"encoding/binary"
	"context"
	"github.com/docker/docker/errdefs"
	"net"
	"io"
	"errors"
	"fmt"
	"time"

	"github.com/tdakkota/docker-logql/internal/zzverif/vk"
)

// c14BadStamps: first tokens that are not timestamps -- words, other notations, and Docker's own fixed-width
// shape with one digit position damaged (a byte below '0': blank, NUL, + , - . / ; a letter; a field out of range)
var c14BadStamps = []string{"yesterday", "1700000000", "2024-13-01T00:00:00.000000000Z", "2024-01-0/T10:00:00.000000000Z", "20 4-01-01T10:00:00.000000000Z",
	"2024-01-01T10:00:00.00000000\x00Z", "2024-01-01T1+:00:00.000000000Z", "2024-01-01T10:00:00.-00000000Z", ",024-01-01T10:00:00.000000000Z", "2024-01-01T10:0.:00.000000000Z",
	"2024-0--01T10:00:00.000000000Z", "2024-01-01T10:00:0\x1f.000000000Z", "2024-01-01T10:00:00.00000000aZ", "2023-02-30T10:00:00.123456789Z", "2024-01-01T10:00:00.000/00000Z", "2024-01-01T/0:00:00.000000000Z"}

func init() {
	register("C14", "fault_enumeration", 10*time.Minute, 60*time.Minute, runC14)
}

const c14T0 = int64(1700000000) * 1e9

type c14Shape struct {
	Name    string `json:"name"`
	Query   string `json:"query"`
	Instant bool   `json:"instant"`
	Limit   int    `json:"limit"`
	Metric  bool   `json:"metric"`
}

func c14Shapes(n int) []c14Shape {
	shapes := []c14Shape{
		{Name: "log-1", Query: `{container="c0"}`, Limit: -1},
		{Name: "log-1-pipeline", Query: `{container="c0"} |= "#" | logfmt`, Limit: -1},
		{Name: "range-1", Query: `count_over_time({container="c0"}[3s])`, Metric: true},
		{Name: "instant-1", Query: `count_over_time({container="c0"}[20s])`, Instant: true, Metric: true},
		{Name: "unwrap-1", Query: `sum_over_time({container="c0"} | logfmt | unwrap v [4s])`, Metric: true},
	}
	if n >= 2 {
		shapes = append(shapes,
			c14Shape{Name: "log-N", Query: `{container=~"c.*"}`, Limit: -1},
			c14Shape{Name: "log-N-limit", Query: `{container=~"c.*"}`, Limit: 2},
			c14Shape{Name: "range-N", Query: `count_over_time({container=~"c.*"}[3s])`, Metric: true},
			c14Shape{Name: "vecagg-N", Query: `sum by (container) (count_over_time({container=~"c.*"}[3s]))`, Metric: true},
			c14Shape{Name: "binop-2sel", Query: `count_over_time({container="c0"}[3s]) + count_over_time({container="c1"}[3s])`, Metric: true},
			c14Shape{Name: "binop-lit", Query: `count_over_time({container=~"c.*"}[3s]) * 2`, Metric: true},
			c14Shape{Name: "setop-2sel", Query: `count_over_time({container="c0"}[3s]) or count_over_time({container="c1"}[3s])`, Metric: true},
		)
	}
	return shapes
}

// invalid-stage shapes: evaluation must fail, and anything opened before the failure must be closed.
var c14Invalid = []c14Shape{
	{Name: "bad-pattern-right", Query: `count_over_time({container="c0"}[3s]) + count_over_time({container="c1"} | pattern "<a><b>" [3s])`, Metric: true},
	{Name: "bad-pattern-left", Query: `count_over_time({container="c0"} | pattern "<a><b>" [3s]) + count_over_time({container="c1"}[3s])`, Metric: true},
	{Name: "bad-template-right", Query: `count_over_time({container="c0"}[3s]) + count_over_time({container="c1"} | line_format "{{ .foo" [3s])`, Metric: true},
	{Name: "bad-jsonpath-right", Query: `count_over_time({container="c0"}[3s]) / count_over_time({container="c1"} | json x="a[" [3s])`, Metric: true},
	{Name: "unsupported-absent", Query: `absent_over_time({container="c0"}[3s])`, Metric: true},
	{Name: "unsupported-absent-right", Query: `count_over_time({container="c0"}[3s]) + absent_over_time({container="c1"}[3s])`, Metric: true},
	{Name: "unsupported-rate-counter", Query: `count_over_time({container="c0"}[3s]) + rate_counter({container="c1"} | logfmt | unwrap v [3s])`, Metric: true},
	{Name: "unsupported-label-replace", Query: `count_over_time({container="c0"}[3s]) + label_replace(count_over_time({container="c1"}[3s]), "a", "$1", "b", "(.*)")`, Metric: true},
	{Name: "unsupported-modifier", Query: `count_over_time({container="c0"}[3s]) + on (container) count_over_time({container="c1"}[3s])`, Metric: true},
	{Name: "bad-pattern-log", Query: `{container="c0"} | pattern "<a><b>"`, Limit: -1},
	{Name: "bad-template-log", Query: `{container=~"c.*"} | label_format x="{{ .foo"`, Limit: -1},
	// ip() patterns that denote no address, network or range: reversed and mixed-family ranges included
	{Name: "bad-ip-reversed-range", Query: `{container=~"c.*"} |= ip("10.0.0.9-10.0.0.1")`, Limit: -1},
	{Name: "bad-ip-reversed-range-neq", Query: `{container=~"c.*"} != ip("10.0.0.9-10.0.0.1")`, Limit: -1},
	{Name: "bad-ip-mixed-range", Query: `{container="c0"} |= ip("10.0.0.1-::ffff")`, Limit: -1},
	{Name: "bad-ip-mixed-range-label", Query: `{container=~"c.*"} | logfmt | v != ip("::1-10.0.0.9")`, Limit: -1},
	{Name: "bad-ip-reversed-range-label", Query: `{container=~"c.*"} | logfmt | v = ip("192.168.1.200-192.168.1.100")`, Limit: -1},
	{Name: "bad-ip-octet", Query: `{container="c0"} |= ip("10.0.0.300")`, Limit: -1},
	{Name: "bad-ip-prefix", Query: `{container="c0"} | logfmt | v = ip("10.0.0.0/33")`, Limit: -1},
	{Name: "bad-ip-half-range", Query: `{container="c0"} |= ip("10.0.0.1-")`, Limit: -1},
	{Name: "bad-ip-reversed-range-metric", Query: `count_over_time({container="c0"}[3s]) + count_over_time({container="c1"} != ip("10.0.0.9-10.0.0.1") [3s])`, Metric: true},
	{Name: "vecagg-over-unsupported", Query: `sum(absent_over_time({container=~"c.*"}[3s]))`, Metric: true},
}

func c14Inventory(r *vk.RNG, n, recs int) []CSpec {
	inv := make([]CSpec, n)
	for i := range inv {
		cs := CSpec{ID: fmt.Sprintf("id%d", i), Name: fmt.Sprintf("/c%d", i), Image: "img", State: "running"}
		for j := 0; j < recs; j++ {
			ts := c14T0 + int64(j)*2e9 + int64(i)*1e8 + int64(r.Intn(1000))
			cs.Frames = append(cs.Frames, Frame{Type: byte(1 + (i+j)%2), TS: ts, Body: fmt.Sprintf("c%d#%d v=%d", i, j, j+1)})
		}
		inv[i] = cs
	}
	return inv
}

func (s c14Shape) params() EvalP {
	if s.Instant {
		return EvalP{Start: c14T0 + 9e9, End: c14T0 + 9e9, Step: 0, Limit: s.Limit}
	}
	return EvalP{Start: c14T0, End: c14T0 + 10e9, Step: 2 * time.Second, Limit: s.Limit}
}

type c14Fault struct {
	Kind      string `json:"kind"` // list | open | read | trunc | frame
	Container int    `json:"container"`
	At        int    `json:"at"`
	FrameKind string `json:"frame_kind,omitempty"`
	Order     []int  `json:"order,omitempty"`
}

var errC14 = errors.New("verif: injected docker fault")

var c14ReadErrs = []error{errC14, fmt.Errorf("read unix @->/var/run/docker.sock: %w", io.ErrUnexpectedEOF),
	fmt.Errorf("verif: http2: stream closed: %w", io.EOF), &net.OpError{Op: "read", Net: "unix", Err: errors.New("connection reset by peer")}}

// the daemon's own error classes: a container removed between the listing and the logs request is "not
// found", a daemon shutting down is "unavailable"; whatever the class, the query has failed
var c14OpenErrs = []error{errC14, errdefs.NotFound(errors.New("No such container: id0")), errdefs.Unavailable(errors.New("daemon is shutting down")),
	errdefs.Conflict(errors.New("container is marked for removal")), errdefs.Cancelled(context.Canceled), errdefs.NotImplemented(errors.New("configured logging driver does not support reading")),
	errdefs.InvalidParameter(errors.New("invalid value for until")), errdefs.System(io.ErrUnexpectedEOF)}

// applyFault installs the fault and returns a function deciding whether it fired.
func applyFault(fd *FakeDocker, inv []CSpec, f c14Fault) func() bool {
	switch f.Kind {
	case "list":
		fd.ListErr = c14OpenErrs[(f.At+f.Container)%len(c14OpenErrs)]
		return func() bool { _, _, fired, _ := fd.Ledger(); return fired > 0 }
	case "list-later":
		// the first listing of the query succeeds, a later one (the second selection's) fails
		fd.ListErr, fd.ListErrFrom = c14OpenErrs[(f.At+f.Container)%len(c14OpenErrs)], 2
		return func() bool { _, _, fired, _ := fd.Ledger(); return fired > 0 }
	case "open":
		fd.Containers[f.Container].LogsErr = c14OpenErrs[(f.At+f.Container)%len(c14OpenErrs)]
		return func() bool { _, _, fired, _ := fd.Ledger(); return fired > 0 }
	case "read":
		fd.Containers[f.Container].Plan.FailAt = f.At
		// transport errors come in many shapes; some wrap an EOF sentinel (a connection torn down
		// mid-body) without being a clean end of the log
		fd.Containers[f.Container].Plan.FailErr = c14ReadErrs[(f.At+f.Container)%len(c14ReadErrs)]
		if (f.At+f.Container)%2 == 0 {
			// a connection that broke says so again when it is closed: the other readers are closed all the same
			fd.Containers[f.Container].Plan.CloseErr = fd.Containers[f.Container].Plan.FailErr
		}
		return func() bool { _, _, fired, _ := fd.Ledger(); return fired > 0 }
	case "trunc":
		fc := fd.Containers[f.Container]
		fc.Stream = fc.Stream[:f.At]
		id := inv[f.Container].ID
		return func() bool {
			fd.L.mu.Lock()
			defer fd.L.mu.Unlock()
			return fd.L.eof[id]
		}
	case "frame":
		frames := append([]Frame(nil), inv[f.Container].Frames...)
		if f.FrameKind == "oversize-header" {
			// a header declaring far more bytes than the stream delivers (a flipped bit in the size field,
			// a connection cut inside a very long line): the stream ends inside that frame
			data := EncodeFrames(frames[:f.At])
			var h [8]byte
			h[0] = frames[f.At].Type
			binary.BigEndian.PutUint32(h[4:], uint32(300000+f.At*70000))
			data = append(append(data, h[:]...), frames[f.At].payload()...)
			fd.Containers[f.Container].Stream = data
			id := inv[f.Container].ID
			return func() bool {
				fd.L.mu.Lock()
				defer fd.L.mu.Unlock()
				return fd.L.eof[id]
			}
		}
		switch f.FrameKind {
		case "daemon-error":
			frames[f.At] = Frame{Type: 3, Raw: "daemon says no"}
		case "bad-timestamp":
			frames[f.At].Raw = c14BadStamps[(f.At*7+f.Container*3)%len(c14BadStamps)] + " " + frames[f.At].Body
		case "no-space":
			frames[f.At].Raw = "2023-11-14T22:13:20Z"
		}
		fd.Containers[f.Container].Stream = EncodeFrames(frames)
		_, ends := FrameBounds(frames)
		id := inv[f.Container].ID
		return func() bool {
			fd.L.mu.Lock()
			defer fd.L.mu.Unlock()
			return fd.L.progress[id] >= ends[f.At]
		}
	}
	panic("bad fault kind")
}

func runC14(r *vk.Run) {
	r.SetRule("query shapes (1/N-container log query, with limit, with pipeline; multi-step range aggregation over 1/N containers; instant metric; unwrap; vector aggregation; arithmetic and set binary operation over two selections; literal binary op; invalid-stage and unsupported-construct queries) " +
		"x every single fault: ContainerList error; ContainerLogs error per container (x all completion orders for N<=4 in phase openorders); non-EOF read error at EVERY byte of every stream; truncation at EVERY byte inside a body; daemon-error / bad-timestamp / no-space frame at EVERY frame index; " +
		"plus storage-level iterator faults on the in-memory Querier (k-th SelectLogs fails; Err() after j records). Oracle: fault fired (recorded by the fake) => Eval returned an error; unfired fault and no error => result equals the fault-free result; at return opened == closed; no Read/Next after Close. " +
		"non-trivial = distinct (shape, fault) runs in which the fault fired.")
	r.Assume("the fake records a fault as fired when the failing call was made / the reader delivered the poisoned frame completely / the truncated stream was read to its end")
	r.SetExhaustive(true)
	if !raceEnabled {
		r.Inconclusive("binary not built with -race")
	}

	runOne := func(c *vk.Case, inv []CSpec, sh c14Shape, f *c14Fault, baseline *string) {
		fd := newFakeDocker(inv)
		fired := func() bool { return false }
		var g *orderGate
		if f != nil {
			fired = applyFault(fd, inv, *f)
			if f.Order != nil {
				ids := make([]string, len(f.Order))
				for i, o := range f.Order {
					ids[i] = inv[o].ID
				}
				g = newOrderGate(ids)
				g.attach(fd)
			}
		}
		res, err := evalQuery(dockerQuerier(fd), sh.Query, sh.params())
		c.Eval(1)
		op, cl, _, proto := fd.Ledger()
		det := func() map[string]any {
			d := map[string]any{"inventory": inv, "shape": sh, "fault": f, "error": fmt.Sprint(err), "opened": op, "closed": cl, "fired": fired()}
			if g != nil {
				d["observed_order"] = g.observed()
			}
			fd.L.mu.Lock()
			d["events"] = append([]string(nil), fd.L.events...)
			fd.L.mu.Unlock()
			return d
		}
		c.Count("readers_opened", op)
		c.Count("readers_closed", cl)
		if op != cl {
			key := ""
			c.Fail(key, fmt.Sprintf("shape %s fault %v: %d readers opened, %d closed when Eval returned (err=%v)", sh.Name, f, op, cl, err), det())
			return
		}
		if len(proto) > 0 {
			c.Fail("", fmt.Sprintf("shape %s: protocol violation %v", sh.Name, proto), det())
			return
		}
		if f == nil {
			if err != nil {
				c.Fail("", fmt.Sprintf("shape %s failed without any fault: %v", sh.Name, err), det())
				return
			}
			*baseline = res.Canonical()
			return
		}
		c.Count("faults_planned:"+f.Kind, 1)
		if fired() {
			c.Count("faults_fired:"+f.Kind, 1)
			c.Nontrivial(fmt.Sprintf("%s|%s|%d|%d|%s|%v|%d", c.Phase, sh.Name, f.Container, f.At, f.Kind+f.FrameKind, f.Order, c.Idx))
			if err == nil {
				d := det()
				d["result"] = res
				c.Fail("", fmt.Sprintf("shape %s: %s fault (container %d, at %d %s) fired but Eval returned no error", sh.Name, f.Kind, f.Container, f.At, f.FrameKind), d)
			}
			return
		}
		if err == nil && *baseline != "" && res.Canonical() != *baseline {
			d := det()
			d["result"] = res
			d["baseline"] = *baseline
			c.Fail("", fmt.Sprintf("shape %s: fault that never fired changed the result", sh.Name), d)
		}
	}

	// every fault position x every shape
	r.Phase("faults", r.N(2, 96), func(c *vk.Case) {
		n := 2 + c.Idx%2
		inv := c14Inventory(c.Rng, n, r.N(3, 5))
		shapes := c14Shapes(n)
		for _, sh := range shapes {
			baseline := ""
			runOne(c, inv, sh, nil, &baseline)
			c.Seen("shapes", sh.Name)
			var faults []c14Fault
			faults = append(faults, c14Fault{Kind: "list", At: c.Idx}, c14Fault{Kind: "list-later", At: c.Idx})
			for i := range inv {
				// every class of daemon error
				for cls := range c14OpenErrs {
					faults = append(faults, c14Fault{Kind: "open", Container: i, At: cls + len(c14OpenErrs) - i})
				}
				data := EncodeFrames(inv[i].Frames)
				starts, ends := FrameBounds(inv[i].Frames)
				for at := 0; at < len(data); at++ {
					faults = append(faults, c14Fault{Kind: "read", Container: i, At: at})
				}
				for k := range inv[i].Frames {
					for at := starts[k] + 8; at < ends[k]; at++ {
						faults = append(faults, c14Fault{Kind: "trunc", Container: i, At: at})
					}
					for _, fk := range []string{"daemon-error", "bad-timestamp", "no-space", "oversize-header"} {
						faults = append(faults, c14Fault{Kind: "frame", Container: i, At: k, FrameKind: fk})
					}
				}
			}
			for i := range faults {
				runOne(c, inv, sh, &faults[i], &baseline)
			}
		}
		if c.Idx == 0 {
			c.Sample("faults", map[string]any{"inventory": inv, "shapes": shapes, "fault_example": c14Fault{Kind: "trunc", Container: 1, At: 20}})
		}
	})

	// open error x completion orders
	r.Phase("openorders", r.N(2, 48), func(c *vk.Case) {
		for n := 2; n <= 4; n++ {
			inv := c14Inventory(c.Rng, n, 3)
			for _, sh := range c14Shapes(n) {
				if sh.Name != "log-N" && sh.Name != "range-N" && sh.Name != "vecagg-N" {
					continue
				}
				baseline := ""
				for _, p := range permutations(n) {
					for fail := 0; fail < n; fail++ {
						runOne(c, inv, sh, &c14Fault{Kind: "open", Container: fail, Order: p, At: c.Idx + fail + len(p)*p[0]}, &baseline)
						c.Seen("orders", fmt.Sprint(p))
					}
					// read error in one container under this order
					runOne(c, inv, sh, &c14Fault{Kind: "read", Container: p[0], At: 10, Order: p}, &baseline)
				}
			}
		}
	})

	// invalid stages / unsupported constructs: must fail, must not leak
	r.Phase("invalid", r.N(3, 300), func(c *vk.Case) {
		inv := c14Inventory(c.Rng, 2+c.Idx%2, 3)
		for _, sh := range c14Invalid {
			fd := newFakeDocker(inv)
			_, err := evalQuery(dockerQuerier(fd), sh.Query, sh.params())
			c.Eval(1)
			c.Count("invalid_stage_runs", 1)
			c.Seen("shapes", sh.Name)
			op, cl, _, proto := fd.Ledger()
			det := map[string]any{"inventory": inv, "shape": sh, "error": fmt.Sprint(err), "opened": op, "closed": cl}
			if err == nil {
				c.Fail("", fmt.Sprintf("invalid query %s evaluated without error", sh.Query), det)
				continue
			}
			if op != cl || len(proto) > 0 {
				c.Fail("", fmt.Sprintf("invalid query %s: %d readers opened, %d closed (protocol %v)", sh.Name, op, cl, proto), det)
				continue
			}
			if op > 0 {
				c.Nontrivial("invalid|" + sh.Name + fmt.Sprint(c.Idx))
				c.Count("invalid_after_open", 1)
			}
		}
	})

	// queries whose acceptance is not the subject here (modifiers an implementation may accept or reject,
	// constructs it may or may not support): whatever the verdict, and wherever in the build it falls, the
	// readers opened before it are closed
	either := []c14Shape{
		{Name: "bool-on-arith-lit-left", Query: `1 + bool count_over_time({container=~"c.*"}[3s])`, Metric: true},
		{Name: "bool-on-arith-lit-right", Query: `count_over_time({container=~"c.*"}[3s]) * bool 2`, Metric: true},
		{Name: "bool-on-arith-vec", Query: `count_over_time({container="c0"}[3s]) - bool count_over_time({container="c1"}[3s])`, Metric: true},
		{Name: "bool-on-arith-nested", Query: `sum(100 - bool count_over_time({container=~"c.*"}[3s]))`, Metric: true},
		{Name: "bool-on-pow-lit-left", Query: `2 ^ bool count_over_time({container="c0"}[3s])`, Metric: true},
		{Name: "bool-on-set", Query: `count_over_time({container="c0"}[3s]) and bool count_over_time({container="c1"}[3s])`, Metric: true},
		{Name: "cmp-without-bool-lit-left", Query: `1 < count_over_time({container=~"c.*"}[3s])`, Metric: true},
		{Name: "lit-op-lit-op-vec", Query: `1 + 2 * count_over_time({container="c0"}[3s])`, Metric: true},
		{Name: "vec-op-lit-op-lit", Query: `count_over_time({container="c0"}[3s]) - 1 - 2`, Metric: true},
		{Name: "quantile-out-of-range", Query: `quantile_over_time(1.5, {container=~"c.*"} | logfmt | unwrap v [3s]) by (container)`, Metric: true},
		{Name: "topk-huge", Query: `topk(9223372036854775807, count_over_time({container=~"c.*"}[3s]))`, Metric: true},
		{Name: "offset-beyond-data", Query: `count_over_time({container=~"c.*"}[3s] offset 100h) + count_over_time({container=~"c.*"}[3s])`, Metric: true},
		{Name: "group-left", Query: `count_over_time({container="c0"}[3s]) / ignoring (container) group_left count_over_time({container="c1"}[3s])`, Metric: true},
		{Name: "label-replace-left", Query: `label_replace(count_over_time({container="c1"}[3s]), "a", "$1", "b", "(.*)") + count_over_time({container="c0"}[3s])`, Metric: true},
	}
	r.Phase("either", r.N(3, 300), func(c *vk.Case) {
		inv := c14Inventory(c.Rng, 2+c.Idx%2, 3)
		for _, sh := range either {
			fd := newFakeDocker(inv)
			_, err := evalQuery(dockerQuerier(fd), sh.Query, sh.params())
			c.Eval(1)
			op, cl, _, proto := fd.Ledger()
			if op != cl || len(proto) > 0 {
				c.Fail("", fmt.Sprintf("%s (err=%v): %d readers opened, %d closed when Eval returned (protocol %v)", sh.Query, err, op, cl, proto), map[string]any{"inventory": inv, "shape": sh, "error": fmt.Sprint(err), "opened": op, "closed": cl})
				continue
			}
			c.Count("either_verdict_runs", 1)
			if err != nil {
				c.Count("either_verdict_rejected", 1)
			}
			if op > 0 {
				c.Nontrivial("either|" + sh.Name + fmt.Sprint(c.Idx))
			}
		}
	})
	r.Require("either_verdict_runs", 30)

	// storage-level faults on the in-memory Querier
	memShapes := []c14Shape{
		{Name: "mem-log", Query: `{app="a"}`, Limit: -1},
		{Name: "mem-range", Query: `count_over_time({app="a"}[3s])`, Metric: true},
		{Name: "mem-instant", Query: `count_over_time({app="a"}[20s])`, Metric: true, Instant: true},
		{Name: "mem-vecagg", Query: `sum by (app) (count_over_time({app="a"}[3s]))`, Metric: true},
		{Name: "mem-binop", Query: `count_over_time({app="a"}[3s]) + count_over_time({app="a"}[5s])`, Metric: true},
		{Name: "mem-setop", Query: `count_over_time({app="a"}[3s]) unless count_over_time({app="b"}[5s])`, Metric: true},
		{Name: "mem-binop-badright", Query: `count_over_time({app="a"}[3s]) + count_over_time({app="a"} | pattern "<a><b>" [5s])`, Metric: true},
	}
	r.Phase("memfault", r.N(2, 64), func(c *vk.Case) {
		var recs []Rec
		nrec := 6 + c.Idx%3
		for j := 0; j < nrec; j++ {
			recs = append(recs, Rec{TS: c14T0 + int64(j)*15e8 + int64(c.Rng.Intn(1000)), Line: fmt.Sprintf("m#%d", j), Labels: map[string]string{"app": vk.Pick(c.Rng, []string{"a", "a", "b"})}})
		}
		for _, sh := range memShapes {
			for failSel := 0; failSel <= 2; failSel++ {
				for errAfter := -1; errAfter <= nrec; errAfter++ {
					for errCall := 0; errCall <= 2; errCall++ {
						if errAfter < 0 && errCall > 0 {
							continue
						}
						if failSel == 0 && errAfter < 0 && sh.Name != "mem-binop-badright" {
							continue
						}
						mq := &MemQuerier{Recs: recs, FailSelectAt: failSel, ErrAfter: errAfter, ErrOnCall: errCall}
						_, err := evalQuery(mq, sh.Query, sh.params())
						c.Eval(1)
						op, cl, fired, proto := mq.Ledger()
						det := map[string]any{"records": recs, "shape": sh, "fail_select_at": failSel, "err_after": errAfter, "err_on_call": errCall, "error": fmt.Sprint(err), "opened": op, "closed": cl, "fired": fired}
						c.Count("mem_runs", 1)
						if op != cl || len(proto) > 0 {
							c.Fail("", fmt.Sprintf("%s: storage iterators opened=%d closed=%d protocol=%v (err=%v)", sh.Name, op, cl, proto, err), det)
							continue
						}
						if fired > 0 {
							c.Count("mem_faults_fired", 1)
							c.Nontrivial(fmt.Sprintf("mem|%s|%d|%d|%d|%d", sh.Name, failSel, errAfter, errCall, c.Idx))
							if err == nil {
								c.Fail("", fmt.Sprintf("%s: storage fault fired (select#%d / Err after %d on call %d) but Eval returned no error", sh.Name, failSel, errAfter, errCall), det)
							}
						}
					}
				}
			}
		}
	})

	blocks, distinct := collectRaceReports("C14")
	r.SetExtra("race_report_blocks", blocks)
	if blocks > 0 {
		r.Phase("race", 1, func(c *vk.Case) {
			c.Fail("", fmt.Sprintf("%d data race report(s)", blocks), map[string]any{"reports": distinct})
		})
	}
	r.Require("faults_fired:read", 1000)
	r.Require("faults_fired:trunc", 500)
	r.Require("faults_fired:frame", 100)
	r.Require("faults_fired:open", 100)
	r.Require("faults_fired:list", 10)
	r.Require("mem_faults_fired", 200)
	r.Require("invalid_after_open", 10)
}

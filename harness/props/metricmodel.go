//go:build verif

package props

import (
	"fmt"
	"math"
	"sort"
	"strconv"
	"strings"
	"time"
)

// ---------------------------------------------------------------------------------------------
// Reference model of metric queries (oracle of C09..C13).

// MSample is one sample after pipeline and extraction.
type MSample struct {
	TS int64
	V  float64
	L  map[string]string // full label set of the entry (before grouping)
}

// VS is one series value at one evaluation time.
type VS struct {
	L map[string]string
	V float64
}

// Vec maps labelKey -> sample; Dup records a label set produced twice (never legal).
type Vec struct {
	M     map[string]VS
	Order []string // insertion order (meaningful for sort/sort_desc only)
}

func newVec() Vec { return Vec{M: map[string]VS{}} }

func (v *Vec) put(s VS) {
	k := labelKey(s.L)
	if _, ok := v.M[k]; !ok {
		v.Order = append(v.Order, k)
	}
	v.M[k] = s
}

// MExpr is a node of the harness-side metric query tree.
type MExpr interface {
	Text() string
	// Eval returns the vector at evaluation time T (unix ns).
	Eval(env *MEnv, T int64) Vec
	Shape() string
}

// MEnv carries the data and calibrated conventions.
type MEnv struct {
	Recs        []Rec
	Msg         bool   // engine exposes line as label msg
	UnwrapKeeps bool   // unwrapped label stays in the series label set
	CmpFalse    string // "zero" | "drop": what a false comparison without bool yields (calibrated)
	CmpFalseBool string // same with the bool modifier
	// Ambiguous counts top-k selections whose cut falls inside a tie (the statement does not say which
	// of the equal members is returned); such cases are discarded by the caller.
	Ambiguous int
	cache     map[string][]MSample
}

// ---- range aggregation leaf

type RangeQ struct {
	Log     LogQ
	Fn      string // count_over_time rate bytes_over_time bytes_rate sum_over_time avg_over_time min_over_time max_over_time stddev_over_time stdvar_over_time quantile_over_time first_over_time last_over_time
	Phi     float64
	Range   time.Duration
	Offset  time.Duration
	Unwrap  string
	Conv    string // "" bytes duration duration_seconds
	// UnwrapFilters are the label matchers written after the unwrap expression
	// (`| unwrap v | g="x"`): a sample is taken only if all of them hold.
	UnwrapFilters []selMatcher
	Group   []string
	Grouped bool
	Without bool
	RangeFirst bool // layout: [range] directly after the selector
}

func durText(d time.Duration) string {
	if d%time.Second == 0 {
		return strconv.FormatInt(int64(d/time.Second), 10) + "s"
	}
	return strconv.FormatInt(int64(d/time.Millisecond), 10) + "ms"
}

func (q *RangeQ) needsUnwrap() bool {
	switch q.Fn {
	case "count_over_time", "bytes_over_time", "bytes_rate":
		return false
	case "rate":
		return q.Unwrap != ""
	}
	return true
}

func (q *RangeQ) Text() string {
	var sb strings.Builder
	sb.WriteString(q.Fn)
	sb.WriteByte('(')
	if q.Fn == "quantile_over_time" {
		sb.WriteString(strconv.FormatFloat(q.Phi, 'f', -1, 64))
		sb.WriteString(", ")
	}
	rng := "[" + durText(q.Range) + "]"
	if q.Offset != 0 {
		rng += " offset " + durText(q.Offset)
	}
	sb.WriteString(renderSelector(q.Log.Sel))
	if q.RangeFirst {
		sb.WriteString(rng)
	}
	for _, s := range q.Log.Stages {
		sb.WriteByte(' ')
		sb.WriteString(s.Text)
	}
	if q.Unwrap != "" {
		if q.Conv != "" {
			sb.WriteString(" | unwrap " + q.Conv + "(" + q.Unwrap + ")")
		} else {
			sb.WriteString(" | unwrap " + q.Unwrap)
		}
		for _, f := range q.UnwrapFilters {
			sb.WriteString(" | " + f.Label + opText(f.Op) + quoteLogQL(f.Value))
		}
	}
	if !q.RangeFirst {
		sb.WriteString(" " + rng)
	}
	sb.WriteByte(')')
	if q.Grouped {
		if q.Without {
			sb.WriteString(" without (")
		} else {
			sb.WriteString(" by (")
		}
		sb.WriteString(strings.Join(q.Group, ", "))
		sb.WriteByte(')')
	}
	return sb.String()
}

func (q *RangeQ) Shape() string {
	s := q.Fn
	if q.Grouped {
		if q.Without {
			s += "/without"
		} else {
			s += "/by"
		}
	}
	if q.Offset != 0 {
		s += "/offset"
	}
	if q.Conv != "" {
		s += "/" + q.Conv
	}
	if len(q.UnwrapFilters) > 0 {
		s += "/unwrap-filter"
	}
	return s
}

// unwrapValue: numeric meaning of an unwrapped label value, from the tables.
func unwrapValue(conv, v string) (float64, bool) {
	switch conv {
	case "":
		if f, ok := numValues[v]; ok {
			return f, true
		}
		if f, err := strconv.ParseFloat(v, 64); err == nil && !strings.ContainsAny(v, "xXpPiInN_") {
			return f, true
		}
	case "bytes":
		if b, ok := bytValues[v]; ok {
			return float64(b), true
		}
	case "duration", "duration_seconds":
		if d, ok := durValues[v]; ok {
			return d.Seconds(), true
		}
	}
	return 0, false
}

func groupLabels(l map[string]string, grouped, without bool, names []string) map[string]string {
	if !grouped {
		return copyMap(l)
	}
	out := map[string]string{}
	if without {
		for k, v := range l {
			if !inList(names, k) {
				out[k] = v
			}
		}
		return out
	}
	for _, n := range names {
		if v, ok := l[n]; ok {
			out[n] = v
		}
	}
	return out
}

// samples returns the extracted samples (time order, stable) with their final (grouped) label set.
func (q *RangeQ) samples(env *MEnv) []MSample {
	key := q.Text()
	if env.cache == nil {
		env.cache = map[string][]MSample{}
	}
	if s, ok := env.cache[key]; ok {
		return s
	}
	ents := q.Log.RunModel(env.Recs, env.Msg)
	var out []MSample
	for _, e := range ents {
		var v float64
		switch {
		case !q.needsUnwrap():
			if q.Fn == "bytes_over_time" || q.Fn == "bytes_rate" {
				v = float64(len(e.Line))
			} else {
				v = 1
			}
		default:
			lv, ok := e.L[q.Unwrap]
			if !ok {
				continue
			}
			f, known := unwrapValue(q.Conv, lv)
			if !known {
				panic("verif: unwrap value not tabulated: " + lv)
			}
			v = f
			pass := true
			for _, uf := range q.UnwrapFilters {
				if !oracleLabelMatch(uf.Op, uf.Value, e.L[uf.Label]) {
					pass = false
				}
			}
			if !pass {
				continue
			}
		}
		l := e.L
		if q.needsUnwrap() && !env.UnwrapKeeps {
			l = without(l, q.Unwrap)
		}
		out = append(out, MSample{TS: e.TS, V: v, L: groupLabels(l, q.Grouped, q.Without, q.Group)})
	}
	env.cache[key] = out
	return out
}

func aggWindow(fn string, phi float64, rangeSec float64, pts []float64) float64 {
	n := float64(len(pts))
	sum := 0.0
	for _, p := range pts {
		sum += p
	}
	switch fn {
	case "count_over_time":
		return n
	case "rate":
		return sum / rangeSec // for the line counter every sample is 1
	case "bytes_over_time", "sum_over_time":
		return sum
	case "bytes_rate":
		return sum / rangeSec
	case "avg_over_time":
		return sum / n
	case "min_over_time":
		m := pts[0]
		for _, p := range pts {
			if p < m {
				m = p
			}
		}
		return m
	case "max_over_time":
		m := pts[0]
		for _, p := range pts {
			if p > m {
				m = p
			}
		}
		return m
	case "stdvar_over_time", "stddev_over_time":
		mean := sum / n
		ss := 0.0
		for _, p := range pts {
			ss += (p - mean) * (p - mean)
		}
		if fn == "stdvar_over_time" {
			return ss / n
		}
		return math.Sqrt(ss / n)
	case "quantile_over_time":
		return quantileModel(phi, pts)
	case "first_over_time":
		return pts[0]
	case "last_over_time":
		return pts[len(pts)-1]
	}
	panic("bad range fn " + fn)
}

func quantileModel(phi float64, pts []float64) float64 {
	if len(pts) == 0 || math.IsNaN(phi) {
		return math.NaN()
	}
	if phi < 0 {
		return math.Inf(-1)
	}
	if phi > 1 {
		return math.Inf(1)
	}
	s := append([]float64(nil), pts...)
	sort.Float64s(s)
	rank := phi * float64(len(s)-1)
	lo := math.Floor(rank)
	hi := math.Min(float64(len(s)-1), lo+1)
	w := rank - lo
	return s[int(lo)]*(1-w) + s[int(hi)]*w
}

func (q *RangeQ) Eval(env *MEnv, T int64) Vec {
	out := newVec()
	lo := T - int64(q.Offset) - int64(q.Range)
	hi := T - int64(q.Offset)
	type acc struct {
		l   map[string]string
		pts []float64
	}
	groups := map[string]*acc{}
	var order []string
	for _, s := range q.samples(env) {
		if s.TS < lo || s.TS > hi {
			continue
		}
		k := labelKey(s.L)
		a := groups[k]
		if a == nil {
			a = &acc{l: s.L}
			groups[k] = a
			order = append(order, k)
		}
		a.pts = append(a.pts, s.V)
	}
	for _, k := range order {
		a := groups[k]
		out.put(VS{L: a.l, V: aggWindow(q.Fn, q.Phi, q.Range.Seconds(), a.pts)})
	}
	return out
}

// WindowCount returns the number of samples inside the window of T (for conservation checks).
func (q *RangeQ) WindowCount(env *MEnv, T int64) int {
	lo := T - int64(q.Offset) - int64(q.Range)
	hi := T - int64(q.Offset)
	n := 0
	for _, s := range q.samples(env) {
		if s.TS >= lo && s.TS <= hi {
			n++
		}
	}
	return n
}

// ---- vector aggregation

type VecAgg struct {
	Op      string // sum avg min max count stddev stdvar topk bottomk sort sort_desc
	K       int
	Inner   MExpr
	Group   []string
	Grouped bool
	Without bool
	GroupFirst bool // layout: grouping before the parenthesis
}

func (a *VecAgg) Text() string {
	grp := ""
	if a.Grouped {
		if a.Without {
			grp = "without (" + strings.Join(a.Group, ", ") + ")"
		} else {
			grp = "by (" + strings.Join(a.Group, ", ") + ")"
		}
	}
	arg := a.Inner.Text()
	if a.Op == "topk" || a.Op == "bottomk" {
		arg = strconv.Itoa(a.K) + ", " + arg
	}
	if a.Grouped && a.GroupFirst {
		return a.Op + " " + grp + " (" + arg + ")"
	}
	if a.Grouped {
		return a.Op + "(" + arg + ") " + grp
	}
	return a.Op + "(" + arg + ")"
}

func (a *VecAgg) Shape() string {
	s := a.Op
	switch {
	case !a.Grouped:
		s += "/nogroup"
	case a.Without:
		s += fmt.Sprintf("/without%d", len(a.Group))
	default:
		s += fmt.Sprintf("/by%d", len(a.Group))
	}
	return s + "(" + a.Inner.Shape() + ")"
}

func (a *VecAgg) Eval(env *MEnv, T int64) Vec {
	in := a.Inner.Eval(env, T)
	out := newVec()
	if a.Op == "sort" || a.Op == "sort_desc" {
		keys := append([]string(nil), in.Order...)
		sort.SliceStable(keys, func(i, j int) bool {
			if a.Op == "sort" {
				return in.M[keys[i]].V < in.M[keys[j]].V
			}
			return in.M[keys[i]].V > in.M[keys[j]].V
		})
		for _, k := range keys {
			out.put(in.M[k])
		}
		return out
	}
	type grp struct {
		l       map[string]string
		members []VS
	}
	groups := map[string]*grp{}
	var order []string
	for _, k := range in.Order {
		s := in.M[k]
		var gl map[string]string
		if !a.Grouped {
			gl = map[string]string{}
		} else {
			gl = groupLabels(s.L, true, a.Without, a.Group)
		}
		gk := labelKey(gl)
		g := groups[gk]
		if g == nil {
			g = &grp{l: gl}
			groups[gk] = g
			order = append(order, gk)
		}
		g.members = append(g.members, s)
	}
	for _, gk := range order {
		g := groups[gk]
		vals := make([]float64, len(g.members))
		for i, m := range g.members {
			vals[i] = m.V
		}
		switch a.Op {
		case "topk", "bottomk":
			ms := append([]VS(nil), g.members...)
			sort.SliceStable(ms, func(i, j int) bool {
				if a.Op == "topk" {
					return ms[i].V > ms[j].V
				}
				return ms[i].V < ms[j].V
			})
			if len(ms) > a.K {
				if ms[a.K-1].V == ms[a.K].V {
					env.Ambiguous++
				}
				ms = ms[:a.K]
			}
			for _, m := range ms {
				out.put(m)
			}
		case "sum":
			out.put(VS{L: g.l, V: aggWindow("sum_over_time", 0, 1, vals)})
		case "avg":
			out.put(VS{L: g.l, V: aggWindow("avg_over_time", 0, 1, vals)})
		case "min":
			out.put(VS{L: g.l, V: aggWindow("min_over_time", 0, 1, vals)})
		case "max":
			out.put(VS{L: g.l, V: aggWindow("max_over_time", 0, 1, vals)})
		case "count":
			out.put(VS{L: g.l, V: float64(len(vals))})
		case "stddev":
			out.put(VS{L: g.l, V: aggWindow("stddev_over_time", 0, 1, vals)})
		case "stdvar":
			out.put(VS{L: g.l, V: aggWindow("stdvar_over_time", 0, 1, vals)})
		default:
			panic("bad vector op " + a.Op)
		}
	}
	return out
}

// ---- literals, vector(), binary operations

// Lit is a number literal; Pad zeros are written before a non-negative whole number (numbers are
// decimal, however many zeros precede them).
type Lit struct {
	V   float64
	Pad int
}

func fnum(v float64) string { return strconv.FormatFloat(v, 'f', -1, 64) }

func (l *Lit) Text() string {
	if l.Pad > 0 && l.V >= 0 && l.V == math.Trunc(l.V) && l.V < 1e15 {
		return strings.Repeat("0", l.Pad) + fnum(l.V)
	}
	return fnum(l.V)
}
func (l *Lit) Shape() string              { return "lit" }
func (l *Lit) Eval(*MEnv, int64) Vec      { panic("literal has no vector value") }

type VectorFn struct{ V float64 }

func (v *VectorFn) Text() string  { return "vector(" + fnum(v.V) + ")" }
func (v *VectorFn) Shape() string { return "vector" }
func (v *VectorFn) Eval(*MEnv, int64) Vec {
	out := newVec()
	out.put(VS{L: map[string]string{}, V: v.V})
	return out
}

type Paren struct{ X MExpr }

func (p *Paren) Text() string                  { return "(" + p.X.Text() + ")" }
func (p *Paren) Shape() string                 { return p.X.Shape() }
func (p *Paren) Eval(env *MEnv, T int64) Vec   { return p.X.Eval(env, T) }

type BinOp struct {
	Op   string // + - * / % ^ == != > >= < <= and or unless
	Bool bool
	L, R MExpr
}

func (b *BinOp) Text() string {
	op := b.Op
	if b.Bool {
		op += " bool"
	}
	return b.L.Text() + " " + op + " " + b.R.Text()
}

func (b *BinOp) Shape() string { return "(" + b.L.Shape() + " " + b.Op + " " + b.R.Shape() + ")" }

func isCmp(op string) bool {
	switch op {
	case "==", "!=", ">", ">=", "<", "<=":
		return true
	}
	return false
}

func isSetOp(op string) bool { return op == "and" || op == "or" || op == "unless" }

// arith applies an arithmetic operator.
func arith(op string, l, r float64) float64 {
	switch op {
	case "+":
		return l + r
	case "-":
		return l - r
	case "*":
		return l * r
	case "/":
		if r == 0 {
			return math.NaN()
		}
		return l / r
	case "%":
		if r == 0 {
			return math.NaN()
		}
		return math.Mod(l, r)
	case "^":
		return math.Pow(l, r)
	}
	panic("bad arith op " + op)
}

// CmpOut is the model's verdict for a comparison: Holds tells which of {value 1} / {absent or 0} is required.
func (b *BinOp) Eval(env *MEnv, T int64) Vec {
	out := newVec()
	lit := func(e MExpr) (float64, bool) {
		if l, ok := e.(*Lit); ok {
			return l.V, true
		}
		return 0, false
	}
	apply := func(l, r float64, labels map[string]string) {
		if isCmp(b.Op) {
			holds := cmpF(b.Op, l, r)
			mode := env.CmpFalse
			if b.Bool {
				mode = env.CmpFalseBool
			}
			if holds {
				out.put(VS{L: labels, V: 1})
			} else if mode == "zero" {
				out.put(VS{L: labels, V: 0})
			}
			return
		}
		out.put(VS{L: labels, V: arith(b.Op, l, r)})
	}
	if lv, ok := lit(b.L); ok {
		in := b.R.Eval(env, T)
		for _, k := range in.Order {
			apply(lv, in.M[k].V, in.M[k].L)
		}
		return out
	}
	if rv, ok := lit(b.R); ok {
		in := b.L.Eval(env, T)
		for _, k := range in.Order {
			apply(in.M[k].V, rv, in.M[k].L)
		}
		return out
	}
	lv := b.L.Eval(env, T)
	rv := b.R.Eval(env, T)
	switch b.Op {
	case "and":
		for _, k := range lv.Order {
			if _, ok := rv.M[k]; ok {
				out.put(lv.M[k])
			}
		}
	case "or":
		for _, k := range lv.Order {
			out.put(lv.M[k])
		}
		for _, k := range rv.Order {
			if _, ok := lv.M[k]; !ok {
				out.put(rv.M[k])
			}
		}
	case "unless":
		for _, k := range lv.Order {
			if _, ok := rv.M[k]; !ok {
				out.put(lv.M[k])
			}
		}
	default:
		for _, k := range lv.Order {
			if r, ok := rv.M[k]; ok {
				apply(lv.M[k].V, r.V, lv.M[k].L)
			}
		}
	}
	return out
}

// ---- comparison of an engine result with the model

// gridTimes returns start + k*step <= end.
func gridTimes(p EvalP) []int64 {
	if p.Step == 0 {
		return []int64{p.Start}
	}
	var out []int64
	for t := p.Start; t <= p.End; t += int64(p.Step) {
		out = append(out, t)
	}
	return out
}

// resultAt indexes an engine result by evaluation time (ms) and label key. dup reports a label set that
// occurs in two series, or two points of one series with the same time.
func resultAt(res Result) (at map[int64]map[string]VS, dup string) {
	at = map[int64]map[string]VS{}
	seenSeries := map[string]bool{}
	for _, s := range res.Series {
		k := labelKey(s.Labels)
		if res.Kind == "matrix" {
			if seenSeries[k] {
				return at, "two series with the same label set " + k
			}
			seenSeries[k] = true
		}
		for _, p := range s.Points {
			m := at[p.T]
			if m == nil {
				m = map[string]VS{}
				at[p.T] = m
			}
			if _, twice := m[k]; twice {
				return at, fmt.Sprintf("label set %s reported twice at t=%dms", k, p.T)
			}
			m[k] = VS{L: s.Labels, V: p.V}
		}
	}
	return at, ""
}

// compareMetric checks the engine result against the model at every grid time.
// cmpLoose: for comparison operators a non-holding series may be absent or 0 (handled by the model's mode).
func compareMetric(expr MExpr, env *MEnv, p EvalP, res Result, tol float64) string {
	at, dup := resultAt(res)
	if dup != "" {
		return dup
	}
	grid := gridTimes(p)
	onGrid := map[int64]bool{}
	for _, T := range grid {
		onGrid[T/1e6] = true
		want := expr.Eval(env, T)
		got := at[T/1e6]
		for k, w := range want.M {
			g, ok := got[k]
			if !ok {
				return fmt.Sprintf("T=%s: series %s missing (expected value %v; result has %d series at T)", tsText(T), k, w.V, len(got))
			}
			if !vk_almost(g.V, w.V, tol) {
				return fmt.Sprintf("T=%s: series %s = %v, expected %v", tsText(T), k, g.V, w.V)
			}
		}
		for k, g := range got {
			if _, ok := want.M[k]; !ok {
				return fmt.Sprintf("T=%s: unexpected series %s = %v (expected %d series at T)", tsText(T), k, g.V, len(want.M))
			}
		}
	}
	for tms := range at {
		if !onGrid[tms] {
			return fmt.Sprintf("point stamped %dms is not an evaluation time of the grid %v", tms, gridText(grid))
		}
	}
	return ""
}

func tsText(T int64) string { return strconv.FormatFloat(float64(T-metricT0)/1e9, 'f', -1, 64) + "s" }

func gridText(grid []int64) string {
	parts := make([]string, len(grid))
	for i, t := range grid {
		parts[i] = tsText(t)
	}
	return strings.Join(parts, ",")
}

const metricT0 = int64(1700000000) * 1e9

func vk_almost(a, b, tol float64) bool {
	if math.IsNaN(a) || math.IsNaN(b) {
		return math.IsNaN(a) && math.IsNaN(b)
	}
	if math.IsInf(a, 0) || math.IsInf(b, 0) {
		return a == b
	}
	if a == b {
		return true
	}
	d := math.Abs(a - b)
	return d <= tol*math.Max(math.Abs(a), math.Abs(b)) || d <= 1e-12
}

//go:build verif

package props

import (
	"fmt"
	"sort"
	"strings"
	"time"

	"github.com/tdakkota/docker-logql/internal/logql"
	"github.com/tdakkota/docker-logql/internal/zzverif/vk"
)

func init() {
	register("C10", "exploration", 8*time.Minute, 60*time.Minute, runC10)
}

// calibrateMetric probes the conventions the properties leave open.
func calibrateMetric() (*MEnv, error) {
	msg, err := calibrateMsgLabel()
	if err != nil {
		return nil, err
	}
	env := &MEnv{Msg: msg}
	mq := &MemQuerier{Recs: []Rec{{TS: metricT0 + 5e9, Line: "v=4", Labels: map[string]string{"job": "j"}}}, ErrAfter: -1}
	p := EvalP{Start: metricT0 + 8e9, End: metricT0 + 8e9}
	res, err := evalQuery(mq, `sum_over_time({job="j"} | logfmt | unwrap v [10s])`, p)
	if err != nil || len(res.Series) != 1 {
		return nil, fmt.Errorf("calibration (unwrap) failed: %v (%d series)", err, len(res.Series))
	}
	_, env.UnwrapKeeps = res.Series[0].Labels["v"]
	probe := func(q string) (string, error) {
		res, err := evalQuery(mq, q, p)
		if err != nil {
			return "", fmt.Errorf("calibration %s failed: %v", q, err)
		}
		if len(res.Series) == 0 {
			return "drop", nil
		}
		if len(res.Series) == 1 && len(res.Series[0].Points) == 1 && res.Series[0].Points[0].V == 0 {
			return "zero", nil
		}
		return "", fmt.Errorf("calibration %s: unexpected result %+v", q, res)
	}
	if env.CmpFalse, err = probe(`vector(1) > 2`); err != nil {
		return nil, err
	}
	if env.CmpFalseBool, err = probe(`vector(1) > bool 2`); err != nil {
		return nil, err
	}
	return env, nil
}

var (
	c10Names = []string{"a", "ab", "abc", "b", "bc", "c", "d"}
	c10Vals  = []string{"", "b", "bc", "c", "cd", "d", "bcd", "a", "ab", "b,c", "b\"", "1"}
)

// genAdversarialRecs: label sets whose names/values are prefixes and concatenations of one another;
// timestamps at x.5 s so that no sample sits on a window edge (C09's subject is kept out).
func genAdversarialRecs(r *vk.RNG, n int) []Rec {
	var recs []Rec
	// a handful of label sets, each used by several records
	nsets := r.Range(2, 6)
	sets := make([]map[string]string, nsets)
	for i := range sets {
		m := map[string]string{"job": "j"}
		k := r.Range(0, 5)
		for j := 0; j < k; j++ {
			m[vk.Pick(r, c10Names)] = vk.Pick(r, c10Vals)
		}
		sets[i] = m
	}
	// forced collisions for separator-less / order-dependent keys
	if r.Bool() {
		sets[0] = map[string]string{"job": "j", "a": "bc"}
		sets[1] = map[string]string{"job": "j", "ab": "c"}
	} else if r.Bool() {
		sets[0] = map[string]string{"job": "j", "a": "b", "c": "d"}
		sets[1] = map[string]string{"job": "j", "a": "bcd"}
	} else if r.Bool() {
		// same names, same values, paired differently (defeats keys that combine pairs commutatively)
		sets[0] = map[string]string{"job": "j", "a": "b", "c": "d"}
		sets[1] = map[string]string{"job": "j", "a": "d", "c": "b"}
	} else if r.Bool() {
		// value of one label equals the name of another and vice versa
		sets[0] = map[string]string{"job": "j", "a": "c", "c": "a"}
		sets[1] = map[string]string{"job": "j", "a": "a", "c": "c"}
	}
	if r.Chance(1, 3) {
		// label sets that read the same under common textual renderings of a set (Go's map printing,
		// k=v lists, Prometheus text, JSON, NUL / 0xFF separated)
		other := vk.Pick(r, []string{"b c:d", "b,c=d", "b, c=d", `b", c="d`, `b",c="d`, `b","c":"d`, "b\x00c\x00d", "b\xffc\xffd", "b\nc=d", "b c=d", "b;c=d"})
		sets[0] = map[string]string{"job": "j", "a": "b", "c": "d"}
		sets[1] = map[string]string{"job": "j", "a": other}
	}
	if r.Chance(1, 4) {
		// a label present with the empty value is not an absent label; values holding the separator a
		// joined key would use (NUL) split differently over two labels
		if r.Bool() {
			sets[0] = map[string]string{"job": "j", "a": "", "b": "y"}
			sets[1] = map[string]string{"job": "j", "b": "y"}
		} else {
			sets[0] = map[string]string{"job": "j", "a": "x\x00", "b": "y"}
			sets[1] = map[string]string{"job": "j", "a": "x", "b": "\x00y"}
		}
	}
	if r.Chance(1, 5) {
		// values that differ only in bytes that are not valid UTF-8 (Latin-1 text, binary ids), next to the
		// replacement character and its escaped spelling which lossy text encodings map them to
		pair := vk.Pick(r, [][2]string{{"M\xfcller", "M\xf6ller"}, {"\xff", "\xfe"}, {"\xff", "\ufffd"}, {"x\x80y", "x\x81y"}, {"\xc3", "\xc3\x28"}, {"\xfe", `\ufffd`}, {"a\xe9", "a\xe8"}})
		sets[0] = map[string]string{"job": "j", "a": pair[0], "b": "y"}
		sets[1] = map[string]string{"job": "j", "a": pair[1], "b": "y"}
	}
	if nsets >= 4 && r.Bool() {
		// a permutation family: the same three values spread over the same three names
		vals := []string{"x", "y", "z"}
		for i := 2; i < nsets; i++ {
			p := r.Perm(3)
			sets[i] = map[string]string{"job": "j", "a": vals[p[0]], "b": vals[p[1]], "c": vals[p[2]]}
		}
	}
	for i := 0; i < n; i++ {
		l := copyMap(vk.Pick(r, sets))
		if r.Chance(1, 2) {
			l["v"] = vk.Pick(r, []string{"1", "3", "42", "200", "1.5"})
		}
		ts := metricT0 + int64(r.Intn(20))*1e9 + 5e8 + int64(i)*1000
		recs = append(recs, Rec{TS: ts, Line: vk.Pick(r, []string{"x", "yy"}), Labels: l})
	}
	return recs
}

// sortRecs2 orders records by timestamp (any n).
func sortRecs2(recs []Rec) {
	sort.SliceStable(recs, func(i, j int) bool { return recs[i].TS < recs[j].TS })
}

func sortRecs(recs []Rec) {
	// stable insertion sort by TS (n is small)
	for i := 1; i < len(recs); i++ {
		for j := i; j > 0 && recs[j].TS < recs[j-1].TS; j-- {
			recs[j], recs[j-1] = recs[j-1], recs[j]
		}
	}
}

func runC10(r *vk.Run) {
	r.SetRule("records whose label sets (0..6 labels) have names and values that are prefixes/concatenations of one another ({a=\"bc\"}/{ab=\"c\"}, {a=\"b\",c=\"d\"}/{a=\"bcd\"}), several samples per set, through count_over_time, unwrapped range aggregations with by/without, and vector-level sum/count by/without; " +
		"every evaluation is repeated (10x quick, 50x thorough) to sample the runtime's map iteration orders. Checked: no two series with equal label maps, expected series and values (reference model), per-step conservation (sum of counts = samples in the window), identical results across repetitions. " +
		"non-trivial = distinct (dataset, query) with >=2 series and >=1 label set carrying >=3 labels.")
	r.Assume("samples are kept strictly inside windows (x.5 s) so that window-edge behaviour (C09) cannot leak in", "label-set identity is map equality")
	env0, err := calibrateMetric()
	if err != nil {
		r.Inconclusive(err.Error())
		return
	}
	r.SetExtra("calibration", map[string]any{"msg_label": env0.Msg, "unwrap_keeps_label": env0.UnwrapKeeps, "cmp_false": env0.CmpFalse, "cmp_false_bool": env0.CmpFalseBool})
	reps := r.N(10, 50)

	r.Phase("identity", r.N(1500, 50000), func(c *vk.Case) {
		rng := c.Rng
		recs := genAdversarialRecs(rng, rng.Range(6, 24))
		sortRecs(recs)
		env := &MEnv{Recs: recs, Msg: env0.Msg, UnwrapKeeps: env0.UnwrapKeeps, CmpFalse: env0.CmpFalse, CmpFalseBool: env0.CmpFalseBool}
		lq := LogQ{Sel: []selMatcher{{Label: "job", Op: logql.OpEq, OpS: "=", Value: "j"}}}
		if env.Msg && rng.Chance(2, 3) {
			lq.Stages = append(lq.Stages, stDrop([]nameOrMatcher{{Name: "msg"}}))
		}
		leaf := &RangeQ{Log: lq, Fn: "count_over_time", Range: 4 * time.Second}
		var expr MExpr = leaf
		conservation := true
		grp := vk.Subset(rng, c10Names)
		switch rng.Intn(9) {
		case 8:
			// an outer grouping over an inner aggregation that kept no label at all: every inner sample is
			// {}, so no outer by (...) can bring a label back
			inner := &VecAgg{Op: vk.Pick(rng, []string{"sum", "count", "max"}), Inner: leaf, Grouped: rng.Bool()}
			expr = &VecAgg{Op: vk.Pick(rng, []string{"sum", "max", "min", "count"}), Inner: inner, Grouped: true, Group: append(grp, "job"), GroupFirst: rng.Bool()}
			conservation = false
		case 6, 7:
			// range-level by/without below a vector-level by/without (non-additive outer operators too)
			leaf.Fn = vk.Pick(rng, []string{"max_over_time", "min_over_time", "last_over_time"})
			leaf.Unwrap = "v"
			leaf.Grouped, leaf.Without, leaf.Group = true, true, append([]string{"v"}, vk.Subset(rng, []string{"msg", "d"})...)
			if rng.Chance(1, 3) {
				leaf.Without, leaf.Group = false, append(vk.Subset(rng, c10Names), "job")
			}
			outer := &VecAgg{Op: vk.Pick(rng, []string{"count", "max", "min", "sum", "avg"}), Inner: leaf, Grouped: true, Without: rng.Bool(), Group: grp, GroupFirst: rng.Bool()}
			if !outer.Without {
				outer.Group = append(outer.Group, "job")
			}
			expr = outer
			conservation = false
		case 0:
		case 1:
			expr = &VecAgg{Op: "sum", Inner: leaf, Grouped: true, Group: append(grp, "job"), GroupFirst: rng.Bool()}
		case 2:
			expr = &VecAgg{Op: "sum", Inner: leaf, Grouped: true, Without: true, Group: grp}
		case 3:
			expr = &VecAgg{Op: "count", Inner: leaf, Grouped: true, Group: append(grp, "job")}
			conservation = false
		case 4:
			leaf.Fn = vk.Pick(rng, []string{"max_over_time", "min_over_time", "avg_over_time", "last_over_time"})
			leaf.Unwrap = "v"
			leaf.Grouped = true
			leaf.Without = rng.Bool()
			leaf.Group = grp
			if !leaf.Without {
				leaf.Group = append(leaf.Group, "job")
				if rng.Chance(1, 4) {
					leaf.Group = nil // `by ()`: every sample has the same (empty) label set
				}
			}
			conservation = false
		case 5:
			leaf.Fn = "sum_over_time"
			leaf.Unwrap = "v"
			conservation = false
		}
		text := expr.Text()
		p := EvalP{Start: metricT0 + 4e9, End: metricT0 + 20e9, Step: 4 * time.Second}
		if rng.Chance(1, 4) {
			p = EvalP{Start: metricT0 + 12e9, End: metricT0 + 12e9}
		}
		first := ""
		for rep := 0; rep < reps; rep++ {
			mq := &MemQuerier{Recs: recs, ErrAfter: -1}
			res, err := evalQuery(mq, text, p)
			c.Eval(1)
			det := func() map[string]any {
				return map[string]any{"query": text, "records": recs, "params": p, "repetition": rep, "result": res}
			}
			if err != nil {
				c.Fail("", "query failed: "+text+": "+err.Error(), det())
				return
			}
			if m := compareMetric(expr, env, p, res, 1e-9); m != "" {
				key := ""
				c.Fail(key, text+": "+m, det())
				return
			}
			if conservation {
				at, _ := resultAt(res)
				for _, T := range gridTimes(p) {
					sum := 0.0
					for _, s := range at[T/1e6] {
						sum += s.V
					}
					if int(sum+0.5) != leaf.WindowCount(env, T) {
						c.Fail("", fmt.Sprintf("%s at T=%s: counts add up to %v, window holds %d samples", text, tsText(T), sum, leaf.WindowCount(env, T)), det())
						return
					}
					c.Count("conservation_checks", 1)
				}
			}
			canon := res.Canonical()
			if first == "" {
				first = canon
			} else if canon != first {
				d := det()
				d["first_result"] = first
				c.Fail("", "result differs between repetitions of the same evaluation: "+text, d)
				return
			}
			c.Count("repetitions", 1)
		}
		sets := map[string]bool{}
		big := false
		for _, rec := range recs {
			sets[labelKey(rec.Labels)] = true
			if len(rec.Labels) >= 4 {
				big = true
			}
		}
		c.Count("label_sets", len(sets))
		c.Seen("shapes", expr.Shape())
		if len(sets) >= 2 && big {
			c.Nontrivial(fmt.Sprintf("%d|%s", c.Idx, text))
		}
		if strings.Contains(labelKey(recs[0].Labels), "bc") {
			c.Count("adversarial_pairs", 1)
		}
		if c.Idx < 4 {
			c.Sample("identity", map[string]any{"query": text, "label_sets": len(sets), "records": len(recs), "first_labels": recs[0].Labels})
		}
	})
	// label values that are numbers with more digits than a float64 holds (ids from `| json`): different
	// numbers are different label values, hence different series
	r.Phase("bigintlabels", r.N(60, 3000), func(c *vk.Case) {
		rng := c.Rng
		ids := []string{"9007199254740993", "9007199254740992", "9007199254740994", "18014398509481985", "18014398509481984", "1234567890123456789", "1234567890123456788", "42", "-9007199254740993", "-9007199254740992"}
		count := map[string]int{}
		var recs []Rec
		for i := 0; i < rng.Range(6, 20); i++ {
			id := vk.Pick(rng, ids)
			count[id]++
			recs = append(recs, Rec{TS: metricT0 + int64(i)*1e8 + 5e8, Line: fmt.Sprintf(`{"user_id":%s,"k":"v"}`, id), Labels: map[string]string{"app": "x"}})
		}
		T := metricT0 + 10e9
		for _, q := range []string{`sum by (user_id) (count_over_time({app="x"} | json [1h]))`, `count_over_time({app="x"} | json | drop msg [1h])`, `sum by (user_id) (count_over_time({app="x"} | json user_id [1h]))`} {
			res, err := evalQuery(&MemQuerier{Recs: recs, ErrAfter: -1}, q, EvalP{Start: T, End: T})
			c.Eval(1)
			det := map[string]any{"query": q, "records": recs, "result": res}
			if err != nil {
				c.Fail("", q+": "+err.Error(), det)
				return
			}
			seen := map[string]bool{}
			for _, sr := range res.Series {
				id := sr.Labels["user_id"]
				if seen[id] || len(sr.Points) != 1 || int(sr.Points[0].V+0.5) != count[id] {
					c.Fail("", fmt.Sprintf("%s: series user_id=%q = %v; the log holds %d records with that id (%d distinct ids in all, %d series returned)", q, id, sr.Points, count[id], len(count), len(res.Series)), det)
					return
				}
				seen[id] = true
			}
			if len(seen) != len(count) {
				c.Fail("", fmt.Sprintf("%s: %d series for %d distinct ids", q, len(seen), len(count)), det)
				return
			}
			c.Count("big_integer_label_series", len(seen))
		}
		c.Nontrivial(fmt.Sprintf("bigintlabels|%d", c.Idx))
	})
	r.Require("big_integer_label_series", 300)

	// many series at once: more groups than any small fixed capacity (8, 16, 32), and -- every fifth case --
	// more label entries in one range aggregation than any chunk a sampler may carve label sets from (2500+
	// records of 4 labels). Each series is still exactly the samples that carry its label set
	r.Phase("manyseries", r.N(60, 3000), func(c *vk.Case) {
		rng := c.Rng
		ng := vk.Pick(rng, []int{9, 12, 17, 24, 33, 40})
		np := rng.Range(2, 4)
		per := rng.Range(1, 3)
		bulk := c.Idx%5 == 2
		if bulk {
			ng, np, per = 40, 4, 16 // 2560 records
			c.Count("manyseries_bulk_cases", 1)
		}
		var recs []Rec
		i := 0
		for g := 0; g < ng; g++ {
			for pd := 0; pd < np; pd++ {
				for k := 0; k < per; k++ {
					l := map[string]string{"job": "j", "g": fmt.Sprintf("g%02d", g), "pod": fmt.Sprintf("p%d", pd), "zone": fmt.Sprintf("z%d", (g+pd)%3)}
					ts := metricT0 + int64(rng.Intn(20))*1e9 + 5e8 + int64(i)*1000
					recs = append(recs, Rec{TS: ts, Line: "x", Labels: l})
					i++
				}
			}
		}
		sortRecs2(recs)
		env := &MEnv{Recs: recs, Msg: env0.Msg, UnwrapKeeps: env0.UnwrapKeeps, CmpFalse: env0.CmpFalse, CmpFalseBool: env0.CmpFalseBool}
		lq := LogQ{Sel: []selMatcher{{Label: "job", Op: logql.OpEq, OpS: "=", Value: "j"}}}
		if env.Msg {
			lq.Stages = append(lq.Stages, stDrop([]nameOrMatcher{{Name: "msg"}}))
		}
		leaf := &RangeQ{Log: lq, Fn: "count_over_time", Range: 4 * time.Second}
		if bulk || rng.Bool() {
			// windows that overlap: a series stays in the window from one step to the next
			leaf.Range = vk.Pick(rng, []time.Duration{12 * time.Second, 8 * time.Second, 20 * time.Second})
		}
		exprs := []MExpr{
			leaf,
			&VecAgg{Op: "sum", Inner: leaf, Grouped: true, Group: []string{"g"}},
			// k is at least the size of every group: each group's members all come back, as they went in
			&VecAgg{Op: vk.Pick(rng, []string{"topk", "bottomk"}), K: np + 3, Inner: leaf, Grouped: true, Group: []string{"g"}},
			&VecAgg{Op: "topk", K: np + 3, Inner: leaf, Grouped: true, Without: true, Group: []string{"pod", "zone"}},
			&VecAgg{Op: "count", Inner: leaf, Grouped: true, Group: []string{"g", "zone"}},
		}
		{
			// operands that are not in any particular order of their label sets (a zero-filled ratio: what
			// `or` adds comes after everything its left side had): series still pair up by label set alone
			lqz := lq
			lqz.Sel = append(append([]selMatcher{}, lq.Sel...), selMatcher{Label: "zone", Op: logql.OpEq, OpS: "=", Value: "z0"})
			leafZ := &RangeQ{Log: lqz, Fn: "count_over_time", Range: leaf.Range}
			part := &VecAgg{Op: "sum", Inner: leafZ, Grouped: true, Group: []string{"g"}}
			all := &VecAgg{Op: "sum", Inner: leaf, Grouped: true, Group: []string{"g"}}
			filled := &Paren{X: &BinOp{Op: "or", L: part, R: &Paren{X: &BinOp{Op: "*", L: all, R: &Lit{V: 0}}}}}
			exprs = append(exprs, &BinOp{Op: "/", L: filled, R: all}, &BinOp{Op: "-", L: all, R: filled})
		}
		p := EvalP{Start: metricT0 + 4e9, End: metricT0 + 20e9, Step: 4 * time.Second}
		for _, expr := range exprs {
			text := expr.Text()
			res, err := evalQuery(&MemQuerier{Recs: recs, ErrAfter: -1}, text, p)
			c.Eval(1)
			det := map[string]any{"query": text, "groups": ng, "pods": np, "records": len(recs), "params": p}
			if err != nil {
				c.Fail("", "query failed: "+text+": "+err.Error(), det)
				return
			}
			if m := compareMetric(expr, env, p, res, 1e-9); m != "" {
				det["result"] = trunc(res.Canonical(), 4000)
				c.Fail("", fmt.Sprintf("%s over %d groups x %d pods (%d records): %s", text, ng, np, len(recs), m), det)
				return
			}
			c.Count("manyseries_checks", 1)
		}
		c.Max("series_in_one_vector", int64(ng*np))
		c.Nontrivial(fmt.Sprintf("many|%d", c.Idx))
	})
	r.Require("manyseries_checks", 100)
	r.Require("manyseries_bulk_cases", 5)

	// Identical records are one series. Groups of records that are identical in labels and line (only
	// the timestamp differs) go through a parser stage that adds many labels (36 fields) or labels
	// whose names collide once sanitised (http.status / http_status); whatever names the parser gives
	// them, identical records have identical label sets, so count_over_time must report exactly one
	// series per group with the group's size, every time.
	r.Phase("identical", r.N(150, 6000), func(c *vk.Case) {
		rng := c.Rng
		ngroups := rng.Range(1, 4)
		var recs []Rec
		size := map[string]int{}
		sizeByGrp := map[string]int{}
		levelCount := map[string]int{}
		for g := 0; g < ngroups; g++ {
			var parts []string
			level := vk.Pick(rng, []string{"info", "warn", "error"})
			parts = append(parts, "level="+level, fmt.Sprintf("grp=%d", g))
			switch rng.Intn(4) {
			case 3: // names equal up to case, accents or width are different names
				parts = append(parts, "Host=a", "host=b", "HOST=c", "traceID=1", "TraceId=2", "traceid=3", "é=1", "É=2", "ｋ=1", "k=2")
			case 0: // wide: far more labels than any "sane" cap
				for f := 0; f < 36; f++ {
					parts = append(parts, fmt.Sprintf("f%02d=%d", f, (f*7+g)%5))
				}
			case 1: // twins under sanitising
				parts = append(parts, "http.status=200", "http_status=OK", "user-id=42", "user_id=u42", "a.b=1", "a_b=2", "a-b=3")
			default:
				parts = append(parts, "x=1", "y=2")
			}
			line := strings.Join(parts, " ")
			if _, dup := size[line]; dup {
				continue
			}
			n := rng.Range(2, 40)
			size[line] = n
			sizeByGrp[fmt.Sprint(g)] = n
			levelCount[level] += n
			sameInstant := rng.Chance(1, 3) // a burst: identical records at one and the same nanosecond are n records
			at := metricT0 + 5e8 + int64(len(recs))*1e6
			for k := 0; k < n; k++ {
				ts := metricT0 + 5e8 + int64(len(recs))*1e6
				if sameInstant {
					ts = at
				}
				recs = append(recs, Rec{TS: ts, Line: line, Labels: map[string]string{"job": "j"}})
			}
			sortRecs(recs)
		}
		p := EvalP{Start: metricT0 + 10e9, End: metricT0 + 10e9}
		for rep := 0; rep < c.R.N(6, 20); rep++ {
			res, err := evalQuery(&MemQuerier{Recs: recs, ErrAfter: -1}, `count_over_time({job="j"} | logfmt [20s])`, p)
			c.Eval(1)
			det := map[string]any{"records": len(recs), "group_sizes": size, "result": res}
			if err != nil {
				c.Fail("", "query failed: "+err.Error(), det)
				return
			}
			if len(res.Series) != len(size) {
				c.Fail("", fmt.Sprintf("%d groups of identical records gave %d series (repetition %d)", len(size), len(res.Series), rep), det)
				return
			}
			seen := map[string]bool{}
			for _, s := range res.Series {
				k := labelKey(s.Labels)
				if seen[k] {
					c.Fail("", "label set "+k+" reported twice", det)
					return
				}
				seen[k] = true
				grp := s.Labels["grp"]
				if want, ok := sizeByGrp[grp]; !ok || len(s.Points) != 1 || s.Points[0].V != float64(want) {
					c.Fail("", fmt.Sprintf("series of group %q: points %v, expected one point of value %d", grp, s.Points, sizeByGrp[grp]), det)
					return
				}
			}
			res2, err := evalQuery(&MemQuerier{Recs: recs, ErrAfter: -1}, `sum by (level) (count_over_time({job="j"} | logfmt [20s]))`, p)
			c.Eval(1)
			if err != nil {
				c.Fail("", "query failed: "+err.Error(), det)
				return
			}
			det["result_by_level"] = res2
			if len(res2.Series) != len(levelCount) {
				c.Fail("", fmt.Sprintf("sum by (level): %d series for %d distinct levels (repetition %d)", len(res2.Series), len(levelCount), rep), det)
				return
			}
			for _, s := range res2.Series {
				if want := levelCount[s.Labels["level"]]; len(s.Labels) != 1 || len(s.Points) != 1 || s.Points[0].V != float64(want) {
					c.Fail("", fmt.Sprintf("sum by (level): series %v = %v, expected {level} = %d", s.Labels, s.Points, want), det)
					return
				}
			}
			// the empty label set is one label set however it was reached: three spellings joined by
			// `or` are one series
			q3 := `sum by (nosuch) (count_over_time({job="j"} | logfmt [20s])) or sum(count_over_time({job="j"} | logfmt [20s])) or sum by () (count_over_time({job="j"}[20s])) or vector(0)`
			res3, err := evalQuery(&MemQuerier{Recs: recs, ErrAfter: -1}, q3, p)
			c.Eval(1)
			if err != nil {
				c.Fail("", "query failed: "+q3+": "+err.Error(), det)
				return
			}
			if len(res3.Series) != 1 || len(res3.Series[0].Labels) != 0 || len(res3.Series[0].Points) != 1 || res3.Series[0].Points[0].V != float64(len(recs)) {
				det["result_empty_sets"] = res3
				c.Fail("", fmt.Sprintf("%s: expected the single series {} = %d, got %d series", q3, len(recs), len(res3.Series)), det)
				return
			}
			c.Count("identical_group_checks", 1)
		}
		c.Nontrivial(fmt.Sprintf("identical|%d", c.Idx))
	})
	r.Require("identical_group_checks", 500)
	// every label of a sample belongs to its identity, the engine's own error labels included: the
	// per-record label sets are read from the log query, the metric query over the same pipeline must
	// report exactly one series per distinct set, with its count
	r.Phase("errorlabels", r.N(100, 5000), func(c *vk.Case) {
		rng := c.Rng
		broken := []string{`{"a":1`, `{"a" 1}`, `{"a":1,}`, `not json`, `[1,2]`, `{"a":{"b":`, `{a:1}`, `{"k":oops}`, ``, `{"a":1}{`}
		var recs []Rec
		n := rng.Range(4, 20)
		for i := 0; i < n; i++ {
			line := vk.Pick(rng, broken)
			if rng.Chance(1, 4) {
				line = `{"a":1,"lvl":"` + vk.Pick(rng, []string{"info", "warn"}) + `"}`
			}
			recs = append(recs, Rec{TS: metricT0 + 5e8 + int64(i)*1e6, Line: line, Labels: map[string]string{"job": "j"}})
		}
		stage := vk.Pick(rng, []string{"| json", "| json a, lvl", "| logfmt", "| unpack"})
		T := metricT0 + 10e9
		lres, err := evalQuery(&MemQuerier{Recs: recs, ErrAfter: -1}, `{job="j"} `+stage+` | drop msg`, EvalP{Start: metricT0, End: T, Step: time.Second, Limit: -1})
		c.Eval(1)
		if err != nil {
			c.Fail("", "log query failed: "+err.Error(), map[string]any{"records": recs, "stage": stage})
			return
		}
		want := map[string]int{}
		for _, st := range lres.Streams {
			want[labelKey(st.Labels)] += len(st.Entries)
		}
		for rep := 0; rep < 3; rep++ {
			mres, err := evalQuery(&MemQuerier{Recs: recs, ErrAfter: -1}, `count_over_time({job="j"} `+stage+` | drop msg [20s])`, EvalP{Start: T, End: T})
			c.Eval(1)
			det := map[string]any{"records": recs, "stage": stage, "label_sets_of_the_log_query": want, "metric_result": mres}
			if err != nil {
				c.Fail("", "metric query failed: "+err.Error(), det)
				return
			}
			got := map[string]int{}
			for _, s := range mres.Series {
				k := labelKey(s.Labels)
				if _, dup := got[k]; dup || len(s.Points) != 1 {
					c.Fail("", "label set "+k+" reported twice", det)
					return
				}
				got[k] = int(s.Points[0].V)
			}
			if len(got) != len(want) {
				c.Fail("", fmt.Sprintf("count_over_time(... %s | drop msg ...): %d series, the records carry %d distinct label sets", stage, len(got), len(want)), det)
				return
			}
			for k, w := range want {
				if got[k] != w {
					c.Fail("", fmt.Sprintf("count_over_time(... %s ...): label set %s counts %d, %d records carry it", stage, k, got[k], w), det)
					return
				}
			}
			c.Count("error_label_identity_checks", 1)
		}
		if len(want) >= 2 {
			c.Nontrivial(fmt.Sprintf("errorlabels|%d", c.Idx))
		}
	})
	r.Require("error_label_identity_checks", 200)

	r.Require("repetitions", 3000)
	r.Require("conservation_checks", 1000)
	phaseFlaky(r, "C10")
	r.Require("distinct_nontrivial", 100)
}

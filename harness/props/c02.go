//go:build verif

package props

import (
	"context"
	"fmt"
	"math"
	"regexp"
	"sort"
	"strconv"
	"strings"
	"time"

	"github.com/tdakkota/docker-logql/internal/logql"
	"github.com/tdakkota/docker-logql/internal/zzverif/vk"
)

func init() {
	register("C02", "exploration", 8*time.Minute, 45*time.Minute, runC02)
}

var (
	c02Names  = []string{"/web", "/web-1", "/web-10", "/db", "/db.primary", "", "/w", "/cache_1", "/Web"}
	c02Images = []string{"nginx", "nginx:1.25", "postgres", "redis", "ngin",
		// fully qualified / differently spelt references of the same images: the label is the reference as the daemon lists it
		"docker.io/library/nginx", "docker.io/library/nginx:1.25", "library/redis", "docker.io/postgres", "index.docker.io/library/redis", "docker.io/acme/ngin", "acme/ngin", "NGINX", "nginx:latest", "nginx@sha256:0a1b"}
	c02States = []string{"running", "exited", "paused", "created", "restarting", "removing", "dead"}
	c02Keys   = []string{"env", "com.docker.compose.service", "app-name", "a/b", "tier", "org.label-schema.name", "Env", "x y", "größe", "t٣", "container.id", "container-name", "container_state"}
	c02Vals   = []string{"prod", "production", "pro", "", "dev", "a.b", "a|b", "x y", "(1)", "PROD", " prod", "prod ", " ", "dev\t"}
)

type selMatcher struct {
	Label string      `json:"label"`
	Op    logql.BinOp `json:"-"`
	OpS   string      `json:"op"`
	Value string      `json:"value"`
}

func opText(op logql.BinOp) string {
	switch op {
	case logql.OpEq:
		return "="
	case logql.OpNotEq:
		return "!="
	case logql.OpRe:
		return "=~"
	case logql.OpNotRe:
		return "!~"
	}
	return "?"
}

func renderSelector(ms []selMatcher) string {
	parts := make([]string, len(ms))
	for i, m := range ms {
		parts[i] = m.Label + opText(m.Op) + quoteLogQL(m.Value)
	}
	return "{" + strings.Join(parts, ", ") + "}"
}

func genInventory(r *vk.RNG, maxN int) []CSpec {
	n := r.Range(0, maxN)
	inv := make([]CSpec, n)
	for i := range inv {
		cs := CSpec{ID: fmt.Sprintf("%02dabc%02d", i, r.Intn(100)), Name: vk.Pick(r, c02Names), Image: vk.Pick(r, c02Images), State: vk.Pick(r, c02States), Labels: map[string]string{}}
		if r.Chance(1, 2) {
			// creation times in no particular order of the listing: long before, inside and after the windows
			// the queries ask for (a container created after the window's end may still have been written to
			// with older timestamps, and is a matching container like any other)
			cs.Created = vk.Pick(r, []int64{1600000000, 1699999000, 1700000100, 1700000230, 1700000400, 1800000000})
		}
		for _, k := range c02Keys {
			if r.Chance(1, 3) {
				cs.Labels[k] = vk.Pick(r, c02Vals)
			}
		}
		if cs.Name != "" && r.Chance(1, 5) {
			// legacy links: the daemon lists /parent/alias entries after the container's own name
			cs.Aliases = []string{vk.Pick(r, c02Names[:5]) + "/" + vk.Pick(r, []string{"db", "web", "backend", "w"}), "/proxy" + vk.Pick(r, c02Names[:5])}
		}
		nrec := r.Range(0, 3)
		for j := 0; j < nrec; j++ {
			cs.Frames = append(cs.Frames, Frame{Type: 1, TS: int64(1700000100+j)*1e9 + int64(i), Body: fmt.Sprintf("c%d#%d", i, j)})
		}
		inv[i] = cs
	}
	return inv
}

// genSelector draws matchers over present and absent labels with values that probe exactness,
// anchoring and "absent == empty".
func genSelector(r *vk.RNG, inv []CSpec) []selMatcher {
	labels := []string{"container", "container_name", "container_id", "container_image", "container_state", "nosuch", "absent_label",
		"container_image_id", "container_command", "container_created", "container_status"}
	for _, k := range c02Keys {
		_, sk := modelSanitise(k)
		labels = append(labels, sk)
	}
	var valuePool []string
	for _, c := range inv {
		m, _ := expectedContainerLabels(c)
		for _, v := range m {
			valuePool = append(valuePool, v)
		}
	}
	valuePool = append(valuePool, c02Vals...)
	n := r.Range(1, 3)
	var ms []selMatcher
	for i := 0; i < n; i++ {
		lbl := vk.Pick(r, labels)
		op := vk.Pick(r, []logql.BinOp{logql.OpEq, logql.OpNotEq, logql.OpRe, logql.OpNotRe})
		base := vk.Pick(r, valuePool)
		var v string
		if op == logql.OpEq || op == logql.OpNotEq {
			switch r.Intn(5) {
			case 0:
				v = base + "x"
			case 1:
				if len(base) > 1 {
					v = base[:len(base)-1]
				} else {
					v = base
				}
			case 2:
				v = ""
			default:
				v = base
			}
		} else {
			switch r.Intn(12) {
			case 9: // explicit anchors around an alternation: ^a|b$ is (^a)|(b$), still to be matched against the WHOLE value
				o := vk.Pick(r, valuePool)
				if len(base) > 1 && len(o) > 1 {
					v = "^" + regexp.QuoteMeta(base[:len(base)-1]) + "|" + regexp.QuoteMeta(o[1:]) + "$"
				} else {
					v = "^" + regexp.QuoteMeta(base) + "|x$"
				}
			case 10: // explicit anchors around the exact value / a prefix
				if r.Bool() || len(base) < 2 {
					v = "^" + regexp.QuoteMeta(base) + "$"
				} else {
					v = "^" + regexp.QuoteMeta(base[:len(base)-1]) + "$"
				}
			case 11: // ends in an escaped dollar
				v = "^" + regexp.QuoteMeta(base) + "\\$"
			case 0:
				v = regexp.QuoteMeta(base)
			case 1: // prefix only: anchoring
				if len(base) > 1 {
					v = regexp.QuoteMeta(base[:len(base)-1])
				} else {
					v = regexp.QuoteMeta(base)
				}
			case 2: // suffix only
				if len(base) > 1 {
					v = regexp.QuoteMeta(base[1:])
				} else {
					v = regexp.QuoteMeta(base)
				}
			case 3:
				v = regexp.QuoteMeta(base) + "|" + regexp.QuoteMeta(vk.Pick(r, valuePool))
			case 4:
				v = ".*"
			case 5:
				v = "x?"
			case 6:
				v = ".+"
			case 7:
				if len(base) > 1 {
					v = regexp.QuoteMeta(base[:1]) + ".*"
				} else {
					v = "[a-z]+"
				}
			default:
				v = "(?i)" + regexp.QuoteMeta(base)
			}
		}
		ms = append(ms, selMatcher{Label: lbl, Op: op, OpS: opText(op), Value: v})
	}
	return ms
}

func expectedSelection(inv []CSpec, ms []selMatcher) (ids []string, ok bool) {
	for _, c := range inv {
		// a Docker label whose sanitised name is a built-in container label is what that name reads
		// (C20); only two Docker keys of one container colliding with each other is left open
		m, keyClash, _ := expectedContainerLabels3(c)
		if keyClash {
			return nil, false
		}
		match := true
		for _, sm := range ms {
			if !oracleLabelMatch(sm.Op, sm.Value, m[sm.Label]) {
				match = false
				break
			}
		}
		if match {
			ids = append(ids, c.ID)
		}
	}
	sort.Strings(ids)
	return ids, true
}

func floorSec(ns int64) int64 { return int64(math.Floor(float64(ns) / 1e9)) }

func floorDivSec(ns int64) int64 {
	q := ns / 1e9
	if ns%1e9 != 0 && ns < 0 {
		q--
	}
	return q
}

func ceilDivSec(ns int64) int64 {
	q := floorDivSec(ns)
	if q*1e9 != ns {
		q++
	}
	return q
}

func runC02(r *vk.Run) {
	r.SetRule("random inventories (0..12 containers; duplicate images, empty names, Docker label keys with ./-// and values that are prefixes of one another) x selectors of 1..3 matchers over present and absent labels with all four operators " +
		"(exact values, near misses, prefix-only / suffix-only regexes, alternations, regexes matching the empty string); the fake client's call ledger gives the opened container ids and the since/until options. " +
		"non-trivial = distinct (inventory, selector) whose expected selection is neither empty nor everything.")
	r.Assume("keys whose sanitised names collide (with each other or a built-in label) are excluded and counted", "since must be floor(window start in s); until floor or ceil of window end")

	r.Phase("select", r.N(6000, 3000000), func(c *vk.Case) {
		rng := c.Rng
		inv := genInventory(rng, 12)
		ms := genSelector(rng, inv)
		want, ok := expectedSelection(inv, ms)
		if !ok {
			c.Count("excluded_collision", 1)
			return
		}
		if want == nil {
			want = []string{}
		}
		query := renderSelector(ms)
		// time range with sub-second parts
		start := int64(1700000000)*1e9 + rng.I64n(50e9)
		end := int64(1700000200)*1e9 + rng.I64n(50e9)
		if c.Idx%5 == 2 {
			// bounds in the very last nanoseconds of a second (the inclusive end of a day, 23:59:59.999999999):
			// still inside that second
			start = start/1e9*1e9 + vk.Pick(rng, []int64{999999999, 999999900, 999999881, 999999500, 1})
			end = end/1e9*1e9 + vk.Pick(rng, []int64{999999999, 999999950, 999999882, 999000000, 0})
			c.Count("bounds_in_the_last_nanoseconds_of_a_second", 1)
		}
		if rng.Chance(1, 5) {
			start = start / 1e9 * 1e9
		}
		if rng.Chance(1, 5) {
			end = end / 1e9 * 1e9
		}
		p := EvalP{Start: start, End: end, Step: time.Second, Limit: -1}
		mode := "range-log"
		wantSince, wantUntilLo, wantUntilHi := floorDivSec(start), floorDivSec(end), ceilDivSec(end)
		sinceLo := wantSince
		switch rng.Intn(6) {
		case 0: // instant log query: look-back applies; only "covers and not wider than lookback+1s" is asserted
			mode = "instant-log"
			p = EvalP{Start: end, End: end, Step: 0, Limit: -1}
			wantSince = floorDivSec(end)
			sinceLo = floorDivSec(end-30e9) - 1
		case 1: // range metric query
			mode = "range-metric"
			rg := int64(rng.Range(1, 90)) * 1e9
			off := int64(0)
			offTxt := ""
			if rng.Bool() {
				off = int64(rng.Range(1, 40)) * 1e9
				offTxt = fmt.Sprintf(" offset %ds", off/1e9)
			}
			query = fmt.Sprintf("count_over_time(%s[%ds]%s)", query, rg/1e9, offTxt)
			p.Step = 7 * time.Second
			wantSince = floorDivSec(start - rg - off)
			sinceLo = wantSince
			wantUntilLo, wantUntilHi = floorDivSec(end-off), ceilDivSec(end-off)
		}
		fd := newFakeDocker(inv)
		for _, fc := range fd.Containers {
			fc.Plan.Chunk = -1
			fc.Plan.Seed = uint64(c.Idx)
		}
		if c.Idx%3 == 1 {
			// the process has seen the selector's texts before, in other roles: as the pattern of a line filter
			// (unanchored there), of a label filter, as a plain string. A selector matcher is anchored whatever
			// was parsed earlier
			for _, m := range ms {
				v := quoteLogQL(m.Value)
				for _, prior := range []string{`{warmup="x"} |~ ` + v, `{warmup="x"} !~ ` + v, `{warmup="x"} | lbl=~` + v, `{warmup="x"} |= ` + v} {
					_, _ = logql.Parse(prior, logql.ParseOptions{})
				}
			}
			c.Count("selectors_after_other_uses_of_their_texts", 1)
		}
		if c.Idx%9 == 4 && len(want) >= 2 {
			// one of the matching containers refuses its log (removed since the listing, unreadable driver):
			// the answer cannot be "the lines of the others" -- the containers read would not be the matching ones
			victim := want[rng.Intn(len(want))]
			for _, fc := range fd.Containers {
				if fc.C.ID == victim {
					fc.LogsErr = c14OpenErrs[1+rng.Intn(len(c14OpenErrs)-1)]
				}
			}
			_, rerr := evalQuery(dockerQuerier(fd), query, p)
			c.Eval(1)
			if rerr == nil {
				c.Fail("", fmt.Sprintf("selector %s matches %v; container %s refused its log and the query answered without it, reporting no error", query, want, victim), map[string]any{"inventory": inv, "query": query, "want_ids": want, "refusing": victim})
				return
			}
			c.Count("refusals_among_several_matching_containers", 1)
			return
		}
		res, err := evalQuery(dockerQuerier(fd), query, p)
		c.Eval(1)
		c.Count("matchers", len(ms))
		for _, m := range ms {
			c.Count("op:"+m.OpS, 1)
			if m.Label == "nosuch" || m.Label == "absent_label" {
				c.Count("absent_label_matchers", 1)
			}
		}
		detail := map[string]any{"inventory": inv, "query": query, "matchers": ms, "want_ids": want, "mode": mode, "params": p}
		if err != nil {
			detail["error"] = err.Error()
			c.Fail("", fmt.Sprintf("query %s failed: %v", query, err), detail)
			return
		}
		got := fd.OpenedIDs()
		if got == nil {
			got = []string{}
		}
		detail["opened_ids"] = got
		if fmt.Sprint(got) != fmt.Sprint(want) {
			key := ""
			c.Fail(key, fmt.Sprintf("selector %s opened %v, expected %v", query, got, want), detail)
			return
		}
		c.Seen("inventory_sizes", fmt.Sprint(len(inv)))
		if len(want) > 0 && len(want) < len(inv) {
			c.Nontrivial(query + fmt.Sprint(c.Idx))
			c.Count("partial_selections", 1)
		}
		// since / until
		for _, call := range fd.Calls {
			s, e1 := strconv.ParseInt(call.Since, 10, 64)
			u, e2 := strconv.ParseInt(call.Until, 10, 64)
			detail["since"], detail["until"] = call.Since, call.Until
			if e1 != nil || e2 != nil {
				c.Fail("", fmt.Sprintf("since/until not whole seconds: %q %q", call.Since, call.Until), detail)
				return
			}
			if s > wantSince || s < sinceLo {
				c.Fail("", fmt.Sprintf("%s: since=%d, window start floors to %d (allowed %d..%d)", mode, s, wantSince, sinceLo, wantSince), detail)
				return
			}
			if u < wantUntilLo || u > wantUntilHi {
				c.Fail("", fmt.Sprintf("%s: until=%d, window end is %d..%d", mode, u, wantUntilLo, wantUntilHi), detail)
				return
			}
			if !call.Opts.ShowStdout || !call.Opts.ShowStderr || !call.Opts.Timestamps || call.Opts.Follow {
				c.Fail("", "log request does not ask for stdout+stderr with timestamps (or follows)", detail)
				return
			}
			c.Count("since_until_pairs", 1)
		}
		c.Seen("modes", mode)
		// origin labels
		if res.Kind == "streams" {
			owner := map[string]CSpec{}
			for _, cs := range inv {
				for _, f := range cs.Frames {
					owner[f.Body] = cs
				}
			}
			nEntries := 0
			for _, s := range res.Streams {
				for _, e := range s.Entries {
					nEntries++
					cs, ok := owner[e.Line]
					if !ok {
						detail["stream"] = s
						c.Fail("", fmt.Sprintf("returned line %q was never written", e.Line), detail)
						return
					}
					exp, _ := expectedContainerLabels(cs)
					for k, v := range exp {
						if s.Labels[k] != v {
							detail["stream"] = s
							c.Fail("", fmt.Sprintf("line %q of container %s carries %s=%q, expected %q", e.Line, cs.ID, k, s.Labels[k], v), detail)
							return
						}
					}
					// no foreign Docker label
					for k := range s.Labels {
						// (further built-in container_* labels an implementation may derive are not an alarm)
						if _, ok := exp[k]; !ok && k != "msg" && !strings.HasPrefix(k, "container_") {
							detail["stream"] = s
							c.Fail("", fmt.Sprintf("line %q carries label %q that its container does not have", e.Line, k), detail)
							return
						}
					}
				}
			}
			wantEntries := 0
			for _, cs := range inv {
				for _, id := range want {
					if id == cs.ID {
						wantEntries += len(cs.Frames)
					}
				}
			}
			if nEntries != wantEntries {
				c.Fail("", fmt.Sprintf("returned %d lines, selected containers wrote %d", nEntries, wantEntries), detail)
				return
			}
			c.Count("lines_traced_to_origin", nEntries)
		}
		if c.Idx < 3 {
			c.Sample("select", map[string]any{"query": query, "mode": mode, "containers": len(inv), "opened": got})
		}
	})
	// several different selectors through one Querier: both sides of a binary operation, then a second
	// query on the same engine
	// Equivalent spellings of one regular expression must select the same containers, whatever the
	// values look like (line breaks, NUL, invalid UTF-8 included). No reading of "." vs newline is
	// assumed here: only that P, (?:P), P|P and (P) denote the same language.
	r.Phase("respell", r.N(3000, 600000), func(c *vk.Case) {
		rng := c.Rng
		inv := genInventory(rng, 10)
		hostile := []string{"prod\nnightly", "p\n", "\n", "pro\x00d", "web\r\n1", "a\nb", "prod\xff", "dev\nprod"}
		for i := range inv {
			for _, k := range c02Keys {
				if rng.Chance(1, 4) {
					inv[i].Labels[k] = vk.Pick(rng, hostile)
				}
			}
		}
		ms := genSelector(rng, inv)
		// keep one regex matcher, over a label likely to be present
		var m selMatcher
		found := false
		for _, x := range ms {
			if x.Op == logql.OpRe || x.Op == logql.OpNotRe {
				m, found = x, true
				break
			}
		}
		if !found {
			_, sk := modelSanitise(vk.Pick(rng, c02Keys))
			m = selMatcher{Label: sk, Op: vk.Pick(rng, []logql.BinOp{logql.OpRe, logql.OpNotRe}), Value: vk.Pick(rng, []string{"p.*", "pro.*", ".*d", "prod.+", "a.b", ".*", ".+", "[a-z]+.*", "web.*"})}
			m.OpS = opText(m.Op)
		}
		if rng.Bool() {
			_, sk := modelSanitise(vk.Pick(rng, c02Keys))
			m.Label = sk
		}
		for _, cs := range inv {
			if _, keyClash, _ := expectedContainerLabels3(cs); keyClash {
				c.Count("excluded_collision", 1)
				return
			}
		}
		spell := []string{m.Value, "(?:" + m.Value + ")", m.Value + "|" + m.Value, "(" + m.Value + ")", "(?:" + m.Value + "){1}"}
		var first []string
		for i, sp := range spell {
			mm := m
			mm.Value = sp
			query := renderSelector([]selMatcher{mm})
			fd := newFakeDocker(inv)
			_, err := evalQuery(dockerQuerier(fd), query, EvalP{Start: 1700000000e9, End: 1700000300e9, Step: time.Second, Limit: -1})
			c.Eval(1)
			detail := map[string]any{"inventory": inv, "query": query, "spellings": spell}
			if err != nil {
				if i == 0 {
					c.Count("respell_base_rejected", 1)
					return
				}
				detail["error"] = err.Error()
				c.Fail("", fmt.Sprintf("query %s failed (%v) although %s is accepted", query, err, spell[0]), detail)
				return
			}
			got := fd.OpenedIDs()
			if i == 0 {
				first = got
				continue
			}
			if fmt.Sprint(got) != fmt.Sprint(first) {
				detail["opened_first"], detail["opened_this"] = first, got
				c.Fail("", fmt.Sprintf("equivalent regex spellings select different containers: %s%s%q opened %v, %q opened %v", m.Label, m.OpS, spell[0], first, sp, got), detail)
				return
			}
		}
		c.Count("respell_groups", 1)
		if len(first) > 0 && len(first) < len(inv) {
			c.Count("respell_partial", 1)
			c.Nontrivial("respell:" + m.Label + m.OpS + m.Value + fmt.Sprint(c.Idx))
		}
	})
	r.Require("respell_partial", 200)

	r.Phase("multisel", r.N(4000, 300000), func(c *vk.Case) {
		rng := c.Rng
		inv := genInventory(rng, 8)
		msA, msB, msC := genSelector(rng, inv), genSelector(rng, inv), genSelector(rng, inv)
		wa, ok1 := expectedSelection(inv, msA)
		wb, ok2 := expectedSelection(inv, msB)
		wc, ok3 := expectedSelection(inv, msC)
		if !ok1 || !ok2 || !ok3 {
			c.Count("excluded_collision", 1)
			return
		}
		fd := newFakeDocker(inv)
		eng := newEngine(dockerQuerier(fd))
		q1 := fmt.Sprintf("count_over_time(%s[30s]) %s count_over_time(%s[30s])", renderSelector(msA), vk.Pick(rng, []string{"or", "+", "unless", "and"}), renderSelector(msB))
		p := EvalP{Start: int64(1700000100) * 1e9, End: int64(1700000160) * 1e9, Step: 20 * time.Second, Limit: -1}
		_, err := eng.Eval(context.Background(), q1, p.params())
		c.Eval(1)
		detail := map[string]any{"inventory": inv, "first_query": q1, "want_left": wa, "want_right": wb}
		if err != nil {
			c.Fail("", fmt.Sprintf("query %s failed: %v", q1, err), detail)
			return
		}
		want := append(append([]string{}, wa...), wb...)
		sort.Strings(want)
		got := fd.OpenedIDs()
		detail["opened_ids"] = got
		if fmt.Sprint(got) != fmt.Sprint(want) && !(len(got) == 0 && len(want) == 0) {
			c.Fail("", fmt.Sprintf("binary query over two selections opened %v, expected %v (left %v + right %v): %s", got, want, wa, wb, q1), detail)
			return
		}
		// a further query on the same engine / querier
		q2 := renderSelector(msC)
		fd.mu.Lock()
		fd.Calls = nil
		fd.mu.Unlock()
		_, err = eng.Eval(context.Background(), q2, p.params())
		c.Eval(1)
		got = fd.OpenedIDs()
		detail["second_query"], detail["want_second"], detail["opened_second"] = q2, wc, got
		if err != nil {
			c.Fail("", fmt.Sprintf("second query %s failed: %v", q2, err), detail)
			return
		}
		if fmt.Sprint(got) != fmt.Sprint(wc) && !(len(got) == 0 && len(wc) == 0) {
			c.Fail("", fmt.Sprintf("second query on the same engine: selector %s opened %v, expected %v (after %s)", q2, got, wc, q1), detail)
			return
		}
		c.Count("multi_selector_runs", 1)
		if len(wa) > 0 && len(wb) > 0 && fmt.Sprint(wa) != fmt.Sprint(wb) {
			c.Nontrivial("multisel" + q1 + fmt.Sprint(c.Idx))
			c.Count("multi_selector_distinct_sides", 1)
		}
	})
	r.Require("multi_selector_distinct_sides", 100)

	// end to end: the built plugin binary against a fake daemon on a unix socket
	r.Phase("e2e", r.N(25, 2500), func(c *vk.Case) {
		rng := c.Rng
		inv := genInventory(rng, 8)
		for i := range inv {
			inv[i].Name = fmt.Sprintf("/n%d%s", i, strings.TrimPrefix(inv[i].Name, "/")) // unique names so that output lines identify their origin
		}
		ms := genSelector(rng, inv)
		want, ok := expectedSelection(inv, ms)
		if !ok {
			c.Count("excluded_collision", 1)
			return
		}
		if want == nil {
			want = []string{}
		}
		d, err := startFakeDaemon(inv, false)
		if err != nil {
			c.R.Inconclusive("fake daemon: " + err.Error())
			return
		}
		defer d.Close()
		start := int64(1700000000) + rng.I64n(50)
		end := int64(1700000200) + rng.I64n(50)
		query := renderSelector(ms)
		pr, err := runPlugin(d, 60*time.Second, query, "--start", fmt.Sprint(start), "--end", fmt.Sprint(end), "--color=false", "-t=false")
		c.Eval(1)
		if err != nil {
			c.R.Inconclusive("cannot run plugin binary: " + err.Error())
			return
		}
		detail := map[string]any{"inventory": inv, "query": query, "want_ids": want, "stdout": string(pr.Stdout), "stderr": string(pr.Stderr), "exit": pr.Exit, "requests": d.requests()}
		if pr.TimedOut || pr.Exit != 0 {
			c.Fail("", fmt.Sprintf("plugin failed on %s: exit=%d timeout=%v stderr=%s", query, pr.Exit, pr.TimedOut, trunc(string(pr.Stderr), 300)), detail)
			return
		}
		var got []string
		for _, rq := range d.requests() {
			got = append(got, rq.ID)
			if rq.Since != fmt.Sprint(start) || rq.Until != fmt.Sprint(end) {
				c.Fail("", fmt.Sprintf("daemon was asked since=%s until=%s for --start %d --end %d", rq.Since, rq.Until, start, end), detail)
				return
			}
		}
		sort.Strings(got)
		if got == nil {
			got = []string{}
		}
		if fmt.Sprint(got) != fmt.Sprint(want) {
			c.Fail("", fmt.Sprintf("e2e: selector %s made the plugin read logs of %v, expected %v", query, got, want), detail)
			return
		}
		// every printed line "<container> <message>" must come from that container
		owner := map[string]string{}
		for _, cs := range inv {
			for _, f := range cs.Frames {
				owner[f.Body] = strings.TrimPrefix(cs.Name, "/")
			}
		}
		lines := 0
		for _, ln := range strings.Split(strings.TrimSuffix(string(pr.Stdout), "\n"), "\n") {
			if ln == "" {
				continue
			}
			lines++
			i := strings.LastIndex(ln, " ")
			if i < 0 || owner[ln[i+1:]] != ln[:i] {
				c.Fail("", fmt.Sprintf("e2e: output line %q does not pair a message with the container that produced it", ln), detail)
				return
			}
		}
		wantLines := 0
		for _, cs := range inv {
			for _, id := range want {
				if id == cs.ID {
					wantLines += len(cs.Frames)
				}
			}
		}
		if lines != wantLines {
			c.Fail("", fmt.Sprintf("e2e: %d lines printed, selected containers wrote %d", lines, wantLines), detail)
			return
		}
		c.Count("e2e_runs", 1)
		c.Count("e2e_lines_traced", lines)
		if len(want) > 0 && len(want) < len(inv) {
			c.Nontrivial("e2e" + query + fmt.Sprint(c.Idx))
		}
	})
	r.Require("e2e_runs", 15)
	r.Require("partial_selections", 500)
	r.Require("refusals_among_several_matching_containers", 100)
	r.Require("absent_label_matchers", 300)
	r.Require("since_until_pairs", 2000)
	r.Require("lines_traced_to_origin", 1000)
}

func init() {
	// values longer than any "reasonable" label: they are values like any other, compared in full
	long := strings.Repeat("0123456789abcdef", 190) // 3040 bytes
	c02Vals = append(c02Vals, long, long[:2048], long[:2047]+"x", long[:1024])
}

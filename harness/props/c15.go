//go:build verif

package props

import (
	"bytes"
	"fmt"
	"regexp"
	"sort"
	"strings"
	"time"

	"github.com/tdakkota/docker-logql/internal/lokiapi"
	"github.com/tdakkota/docker-logql/internal/zzverif/vk"
)

func init() {
	register("C15", "exploration", 8*time.Minute, 60*time.Minute, runC15)
}

type renderEntry struct {
	Container string `json:"container"`
	TS        int64  `json:"ts"`
	Msg       string `json:"msg"`
}

type renderStream struct {
	Labels  map[string]string `json:"labels"`
	Entries []renderEntry     `json:"entries"`
}

var c15MsgAtoms = []string{"hello", " ", "\n", "\r\n", "\r", "world", "\x00", "\xff\xfe", "ünï", "tab\t", "a=b", "[x]", "\n\n", "end", "{\"k\":1}", "%s", "\\n",
	// messages that carry their own escape sequences: they are message bytes like any other
	"\x1b[31m", "\x1b[0m", "\x1b[1;32mok", "\x1b[2K", "\x1b",
	// bytes a "clean-up" likes to touch: byte order mark, no-break / zero-width space, line separator, a real U+FFFD
	"\xef\xbb\xbf", "\u00a0", "\u200b", "\u2028", "\ufffd", "\x7f"}

func genRenderData(r *vk.RNG, maxContainers int) []renderStream {
	nc := r.Range(0, maxContainers)
	var streams []renderStream
	base := int64(1700000000) * 1e9
	if r.Chance(1, 8) {
		// entries around the Unix epoch: a timestamp before 1970 is a negative nanosecond count, which the
		// result carries as T >= 2^63; it is printed as the date it is and has its place in the order
		base = -int64(r.Range(1, 6)) * 1e9
	}
	spread := r.Chance(1, 10)
	for ci := 0; ci < nc; ci++ {
		name := fmt.Sprintf("ctr-%d", ci)
		if r.Chance(1, 3) {
			// names as deployments give them: long, composed, not ASCII only
			name = vk.Pick(r, []string{"shop-grafana", "monitoring-api", "observability-stack-clickhouse-keeper", "registry", "web-db", "web-otel-collector",
				"k8s_POD_kube-apiserver-master_kube-system_0a1b2c3d-4e5f", "a", strings.Repeat("x", 200), "ünï-容器", "compose_project_service_with_a_rather_long_name", "Z"}) + fmt.Sprintf("-%d", ci)
		}
		if ci == 3 && r.Bool() {
			name = "" // a stream without container label
		}
		nstreams := 1
		if r.Chance(1, 4) {
			nstreams = 2 // same container, different other labels
		}
		for si := 0; si < nstreams; si++ {
			s := renderStream{Labels: map[string]string{"container_id": fmt.Sprintf("id%d", ci), "stream": fmt.Sprint(si)}}
			if name != "" {
				s.Labels["container"] = name
			}
			ne := r.Range(0, 6)
			ts := base + int64(r.Intn(5))*1e9
			if spread {
				// one result spanning centuries (an archive next to a clock set wrong): 1700 ... 2200
				ts = vk.Pick(r, []int64{-8520336000e9, -3786825600e9, 0, 1700000000e9, 7258118400e9}) + int64(r.Intn(5))*1e9
			}
			for e := 0; e < ne; e++ {
				switch r.Intn(4) {
				case 0: // equal timestamp
				case 1:
					ts += 1e9 // whole seconds collide across containers
				default:
					ts += int64(r.Intn(2e9)) + 1
				}
				var msg strings.Builder
				k := r.Range(0, 5)
				for i := 0; i < k; i++ {
					msg.WriteString(vk.Pick(r, c15MsgAtoms))
				}
				if r.Chance(1, 60) {
					// a very long line (a dumped payload): longer than any buffer a renderer may assemble lines in
					msg.WriteString(strings.Repeat(vk.Pick(r, []string{"x", "payload ", "ünï"}), vk.Pick(r, []int{70000, 9000, 140000})))
				}
				if r.Chance(1, 3) {
					msg.WriteString(vk.Pick(r, []string{"\n", "\r\n", "\n\n", "\r", "\r\n\r\n"}))
				}
				s.Entries = append(s.Entries, renderEntry{Container: name, TS: ts, Msg: msg.String()})
			}
			if len(s.Entries) >= 2 && r.Chance(1, 5) {
				// a result is not obliged to list a stream's entries oldest first: newest-first responses,
				// entries in arrival order
				if r.Bool() {
					for i, j := 0, len(s.Entries)-1; i < j; i, j = i+1, j-1 {
						s.Entries[i], s.Entries[j] = s.Entries[j], s.Entries[i]
					}
				} else {
					for i := len(s.Entries) - 1; i > 0; i-- {
						j := r.Intn(i + 1)
						s.Entries[i], s.Entries[j] = s.Entries[j], s.Entries[i]
					}
				}
			}
			streams = append(streams, s)
		}
	}
	return streams
}

func toLokiStreams(streams []renderStream) lokiapi.QueryResponseData {
	var res lokiapi.Streams
	for _, s := range streams {
		ls := lokiapi.Stream{Stream: lokiapi.NewOptLabelSet(lokiapi.LabelSet(copyMap(s.Labels)))}
		for _, e := range s.Entries {
			ls.Values = append(ls.Values, lokiapi.LogEntry{T: uint64(e.TS), V: e.Msg})
		}
		res = append(res, ls)
	}
	var data lokiapi.QueryResponseData
	data.SetStreamsResult(lokiapi.StreamsResult{Result: res})
	return data
}

var sgrRe = regexp.MustCompile(`^\x1b\[[0-9;]*m`)

// matchRecord tries to consume one expected record at out[pos:].
// Returns the new position and the colour sequence used for the container name ("" if none).
func matchRecord(out []byte, pos int, e renderEntry, showTS, showName, color bool) (int, string, bool) {
	p := pos
	colour := ""
	if showName {
		if color {
			m := sgrRe.Find(out[p:])
			if m == nil {
				return 0, "", false
			}
			colour = string(m)
			p += len(m)
		}
		if !bytes.HasPrefix(out[p:], []byte(e.Container)) {
			return 0, "", false
		}
		p += len(e.Container)
		if color {
			m := sgrRe.Find(out[p:])
			if m == nil {
				return 0, "", false
			}
			p += len(m)
		}
		if p >= len(out) || out[p] != ' ' {
			return 0, "", false
		}
		p++
	}
	if showTS {
		if color {
			if m := sgrRe.Find(out[p:]); m != nil {
				p += len(m)
			}
		}
		end := p
		for end < len(out) && out[end] != ' ' && out[end] != 0x1b {
			end++
		}
		t, err := time.Parse(time.RFC3339Nano, string(out[p:end]))
		if err != nil || t.UnixNano() != e.TS {
			return 0, "", false
		}
		p = end
		if color {
			if m := sgrRe.Find(out[p:]); m != nil {
				p += len(m)
			}
		}
		if p >= len(out) || out[p] != ' ' {
			return 0, "", false
		}
		p++
	}
	msg := strings.TrimRight(e.Msg, "\r\n")
	if !bytes.HasPrefix(out[p:], []byte(msg)) {
		return 0, "", false
	}
	p += len(msg)
	if p >= len(out) || out[p] != '\n' {
		return 0, "", false
	}
	return p + 1, colour, true
}

// consumeOutput decides whether out is a concatenation of exactly the expected records in an order
// consistent with timestamps (records with equal timestamps in any order; backtracking inside a group).
func anyEscMsg(es []renderEntry) bool {
	for _, e := range es {
		if strings.IndexByte(e.Msg, 0x1b) >= 0 {
			return true
		}
	}
	return false
}

func consumeOutput(out []byte, entries []renderEntry, showTS, showName, color bool) (string, map[string]map[string]bool) {
	sorted := append([]renderEntry(nil), entries...)
	sort.SliceStable(sorted, func(i, j int) bool { return sorted[i].TS < sorted[j].TS })
	colours := map[string]map[string]bool{}
	pos := 0
	for i := 0; i < len(sorted); {
		j := i
		for j < len(sorted) && sorted[j].TS == sorted[i].TS {
			j++
		}
		group := sorted[i:j]
		used := make([]bool, len(group))
		type choice struct {
			name, colour string
		}
		var chosen []choice
		var dfs func(p, left int) int
		dfs = func(p, left int) int {
			if left == 0 {
				return p
			}
			for k, e := range group {
				if used[k] {
					continue
				}
				np, col, ok := matchRecord(out, p, e, showTS, showName, color)
				if !ok {
					continue
				}
				used[k] = true
				chosen = append(chosen, choice{e.Container, col})
				if end := dfs(np, left-1); end >= 0 {
					return end
				}
				chosen = chosen[:len(chosen)-1]
				used[k] = false
			}
			return -1
		}
		end := dfs(pos, len(group))
		if end < 0 {
			ctx := out[pos:]
			if len(ctx) > 120 {
				ctx = ctx[:120]
			}
			return fmt.Sprintf("output at byte %d (%q...) is not one of the %d expected record(s) with timestamp %d (e.g. container %q message %q)", pos, ctx, len(group), group[0].TS, group[0].Container, group[0].Msg), colours
		}
		for _, ch := range chosen {
			if colours[ch.name] == nil {
				colours[ch.name] = map[string]bool{}
			}
			colours[ch.name][ch.colour] = true
		}
		pos = end
		i = j
	}
	if pos != len(out) {
		return fmt.Sprintf("%d trailing bytes after the last expected record: %q", len(out)-pos, out[pos:]), colours
	}
	return "", colours
}

func runC15(r *vk.Run) {
	if Cmd == nil {
		r.Inconclusive("C15 needs the cmd/docker-logql test binary (renderResult is unexported)")
		return
	}
	r.SetRule("generated log results (0..40 containers, well above the 7-colour palette; several streams per container; 0..6 entries each; equal timestamps within and across containers; messages with embedded/trailing CR/LF, NUL, invalid UTF-8; a stream without container label) " +
		"rendered by renderResult under all 8 combinations of timestamp/container/colour; the output is consumed against the multiset of expected records `[name ][RFC3339Nano ]message-without-trailing-CR/LF\\n` in an order consistent with timestamps; colour off => no ESC byte; " +
		"colour on => name wrapped in SGR sequences, one colour per container. A panic inside renderResult is a violation. non-trivial = distinct results with >=2 entries (each rendered under all 8 option combinations).")
	r.Assume("messages contain no ESC byte (so any ESC in the output comes from the renderer)", "which palette colour a container gets is not asserted, only that it is an SGR sequence and stable per container", "the timestamp may additionally be wrapped in SGR sequences when colour is on")
	r.SetExhaustive(true)

	r.Phase("render", r.N(2000, 1500000), func(c *vk.Case) {
		rng := c.Rng
		maxC := vk.Pick(rng, []int{0, 1, 3, 6, 7, 8, 9, 12, 40})
		streams := genRenderData(rng, maxC)
		data := toLokiStreams(streams)
		var all []renderEntry
		names := map[string]bool{}
		for _, s := range streams {
			all = append(all, s.Entries...)
			if len(s.Entries) > 0 {
				names[s.Labels["container"]] = true
			}
		}
		tsCount := map[int64]int{}
		for _, e := range all {
			tsCount[e.TS]++
		}
		for opt := 0; opt < 8; opt++ {
			showTS, showName, color := opt&1 != 0, opt&2 != 0, opt&4 != 0
			var out []byte
			var err error
			panicked := ""
			func() {
				defer func() {
					if p := recover(); p != nil {
						panicked = fmt.Sprint(p)
					}
				}()
				out, err = Cmd.Render(showTS, showName, color, data)
			}()
			c.Eval(1)
			det := func() map[string]any {
				return map[string]any{"streams": streams, "timestamp": showTS, "container": showName, "color": color, "output": string(out), "containers_with_entries": len(names)}
			}
			if panicked != "" {
				key := ""
				c.Fail(key, fmt.Sprintf("renderResult panicked with %d containers (timestamp=%v container=%v color=%v): %s", len(names), showTS, showName, color, panicked), det())
				continue
			}
			if err != nil {
				c.Fail("", "renderResult failed: "+err.Error(), det())
				continue
			}
			// messages with escape bytes of their own are covered by the exact comparison below
			if !color && !anyEscMsg(all) && bytes.IndexByte(out, 0x1b) >= 0 {
				c.Fail("", "colour is off but the output contains an escape sequence", det())
				continue
			}
			msg, colours := consumeOutput(out, all, showTS, showName, color)
			if msg != "" {
				c.Fail("", fmt.Sprintf("timestamp=%v container=%v color=%v: %s", showTS, showName, color, msg), det())
				continue
			}
			if color && showName {
				for name, cs := range colours {
					if len(cs) != 1 {
						c.Fail("", fmt.Sprintf("container %q rendered in %d different colours", name, len(cs)), det())
					}
					for col := range cs {
						c.Seen("colours", fmt.Sprintf("%q", col))
					}
				}
			}
			c.Count("renders", 1)
			c.Seen("option_combinations", fmt.Sprintf("ts=%v,name=%v,color=%v", showTS, showName, color))
		}
		if len(all) >= 2 {
			c.Nontrivial(fmt.Sprintf("%d", c.Idx))
		}
		c.Max("containers", int64(len(names)))
		for _, n := range tsCount {
			if n > 1 {
				c.Count("equal_timestamp_groups", 1)
			}
		}
		c.Count("entries", len(all))
		if c.Idx < 3 && len(all) > 3 {
			out, _ := Cmd.Render(true, true, false, data)
			c.Sample("render", map[string]any{"containers": len(names), "entries": len(all), "output_head": trunc(string(out), 300)})
		}
	})
	// long results (a day of logs of a few busy containers): one line per entry however many entries there
	// are, well beyond any chunk or buffer size a renderer may work in (tens of thousands of entries)
	r.Phase("bulk", r.N(2, 8), func(c *vk.Case) {
		rng := c.Rng
		nc := rng.Range(1, 5)
		total := vk.Pick(rng, []int{40000, 70000, 33000, 100000})
		streams := make([]renderStream, nc)
		for ci := range streams {
			streams[ci] = renderStream{Labels: map[string]string{"container": fmt.Sprintf("ctr-%d", ci), "container_id": fmt.Sprintf("id%d", ci)}}
		}
		ts := int64(1700000000) * 1e9
		var all []renderEntry
		for i := 0; i < total; i++ {
			ts += int64(rng.Intn(1e6)) + 1 // distinct timestamps: the order is fully determined
			ci := rng.Intn(nc)
			msg := fmt.Sprintf("m%d", i)
			if rng.Chance(1, 50) {
				msg += vk.Pick(rng, c15MsgAtoms)
			}
			e := renderEntry{Container: streams[ci].Labels["container"], TS: ts, Msg: msg}
			streams[ci].Entries = append(streams[ci].Entries, e)
			all = append(all, e)
		}
		data := toLokiStreams(streams)
		for opt := 0; opt < 8; opt++ {
			showTS, showName, color := opt&1 != 0, opt&2 != 0, opt&4 != 0
			out, err := Cmd.Render(showTS, showName, color, data)
			c.Eval(1)
			det := map[string]any{"containers": nc, "entries": total, "timestamp": showTS, "container": showName, "color": color, "output_bytes": len(out), "output_lines": bytes.Count(out, []byte("\n"))}
			if err != nil {
				c.Fail("", "renderResult failed: "+err.Error(), det)
				return
			}
			if msg, _ := consumeOutput(out, all, showTS, showName, color); msg != "" {
				c.Fail("", fmt.Sprintf("timestamp=%v container=%v color=%v, %d entries of %d containers: %s", showTS, showName, color, total, nc, trunc(msg, 300)), det)
				return
			}
			c.Count("bulk_renders", 1)
		}
		c.Max("entries_in_one_result", int64(total))
		c.Nontrivial(fmt.Sprintf("bulk|%d", c.Idx))
	})
	r.Require("bulk_renders", 8)
	// end to end: the plugin binary with its real flags against the fake daemon, 12 containers
	r.Phase("e2e", r.N(16, 1600), func(c *vk.Case) {
		rng := c.Rng
		nc := vk.Pick(rng, []int{1, 7, 8, 12})
		var inv []CSpec
		var all []renderEntry
		for i := 0; i < nc; i++ {
			cs := CSpec{ID: fmt.Sprintf("id%02d", i), Name: fmt.Sprintf("/ctr-%d", i), Image: "img", State: "running"}
			ts := int64(1700000000)*1e9 + int64(rng.Intn(3))*1e9
			for j := 0; j < rng.Range(0, 4); j++ {
				ts += int64(rng.Intn(2)) * 1e9 // ties across containers
				ts += int64(rng.Intn(2)) * int64(rng.Intn(1e9))
				body := vk.Pick(rng, c15MsgAtoms) + vk.Pick(rng, c15MsgAtoms) + vk.Pick(rng, []string{"\n", "\r\n", "", "\n\n"})
				cs.Frames = append(cs.Frames, Frame{Type: byte(1 + j%2), TS: ts, Body: body})
				all = append(all, renderEntry{Container: fmt.Sprintf("ctr-%d", i), TS: ts, Msg: body})
			}
			inv = append(inv, cs)
		}
		d, err := startFakeDaemon(inv, false)
		if err != nil {
			c.R.Inconclusive("fake daemon: " + err.Error())
			return
		}
		defer d.Close()
		opt := c.Idx % 8
		showTS, showName, color := opt&1 != 0, opt&2 != 0, opt&4 != 0
		pr, err := runPlugin(d, 60*time.Second, `{container=~"ctr.*"}`, "--start", "1699990000", "--end", "1700009999",
			fmt.Sprintf("--timestamp=%v", showTS), fmt.Sprintf("--container=%v", showName), fmt.Sprintf("--color=%v", color))
		c.Eval(1)
		if err != nil {
			c.R.Inconclusive("cannot run plugin binary: " + err.Error())
			return
		}
		det := map[string]any{"inventory": inv, "timestamp": showTS, "container": showName, "color": color, "stdout": string(pr.Stdout), "stderr": string(pr.Stderr), "exit": pr.Exit}
		if pr.TimedOut || pr.Exit != 0 {
			c.Fail("", fmt.Sprintf("plugin failed with %d containers (timestamp=%v container=%v color=%v): exit=%d %s", nc, showTS, showName, color, pr.Exit, trunc(string(pr.Stderr), 400)), det)
			return
		}
		if !color && !anyEscMsg(all) && bytes.IndexByte(pr.Stdout, 0x1b) >= 0 {
			c.Fail("", "e2e: colour off but output contains an escape sequence", det)
			return
		}
		if msg, _ := consumeOutput(pr.Stdout, all, showTS, showName, color); msg != "" {
			c.Fail("", fmt.Sprintf("e2e timestamp=%v container=%v color=%v: %s", showTS, showName, color, msg), det)
			return
		}
		c.Count("e2e_renders", 1)
		c.Nontrivial(fmt.Sprintf("e2e%d", c.Idx))
	})
	r.Require("e2e_renders", 8)
	r.Require("renders", 8000)
	r.Require("distinct:option_combinations", 8)
	r.Require("equal_timestamp_groups", 500)
	r.Require("max:containers", 20)
}

func trunc(s string, n int) string {
	if len(s) > n {
		return s[:n] + "…"
	}
	return s
}

//go:build verif

// Package props holds one runtime monitor per property C01..C20 plus the generators,
// reference models and fakes they share.
package props

import (
	"sync/atomic"
	"fmt"
	"os"
	"time"

	"github.com/tdakkota/docker-logql/internal/zzverif/vk"
)

type propDef struct {
	level    string
	run      func(r *vk.Run)
	wdQuick  time.Duration
	wdThorough time.Duration
}

var registry = map[string]propDef{}

func register(id, level string, wdQuick, wdThorough time.Duration, run func(r *vk.Run)) {
	registry[id] = propDef{level: level, run: run, wdQuick: wdQuick, wdThorough: wdThorough}
}

// CmdHooks gives the monitors access to unexported functions of package main (cmd/docker-logql);
// it is filled in by the overlaid test file and nil in the plain harness binary.
type CmdHooks struct {
	// Render calls renderResult with the given options and returns its output.
	Render func(timestamp, container, color bool, data any) ([]byte, error)
	// TimeRange calls parseTimeRange(now, start, end, since); absent flags are nil.
	TimeRange func(now time.Time, start, end, since *string) (time.Time, time.Time, error)
	// Step calls parseStep(step, start, end); absent flag is nil.
	Step func(step *string, start, end time.Time) (time.Duration, error)
	// Timestamp calls parseTimestamp(value, def).
	Timestamp func(value string, def time.Time) (time.Time, error)
}

var Cmd *CmdHooks

// CmdViaFlags is set once the hooks have passed values through the real command's flag objects.
var CmdViaFlags atomic.Bool

// Main runs one property and never returns normally (Finish exits); the int is for usage errors.
func Main(id, tier, replay string) int {
	def, ok := registry[id]
	if !ok {
		fmt.Fprintf(os.Stderr, "unknown property %q\n", id)
		return 2
	}
	r := vk.NewRun(id, tier, def.level)
	if replay != "" {
		if err := r.LoadReplay(replay); err != nil {
			fmt.Fprintf(os.Stderr, "replay: %v\n", err)
			return 2
		}
	}
	wd := def.wdQuick
	if r.Thorough() {
		wd = def.wdThorough
	}
	r.StartWatchdog(wd)
	def.run(r)
	r.Finish()
	return 0
}

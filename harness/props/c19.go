//go:build verif

package props

import (
	"github.com/tdakkota/docker-logql/internal/logql"
	"fmt"
	"regexp"
	"sort"
	"strings"
	"time"

	"github.com/tdakkota/docker-logql/internal/zzverif/vk"
)

func init() {
	register("C19", "exploration", 8*time.Minute, 60*time.Minute, runC19)
}

// genRegex draws a random *valid* regular expression over a small grammar.
func genRegex(r *vk.RNG, depth int) string {
	for tries := 0; tries < 20; tries++ {
		s := genRegexNode(r, depth)
		if r.Chance(1, 8) {
			s = "(?i)" + s
		}
		if r.Chance(1, 8) {
			s = "^" + s
		}
		if r.Chance(1, 8) {
			s += "$"
		}
		if _, err := regexp.Compile(s); err == nil && len(s) < 60 {
			return s
		}
	}
	return "x"
}

func genRegexNode(r *vk.RNG, depth int) string {
	atoms := []string{"a", "e", "r", "1", "0", "\\.", ".", "\\d", "\\w", "\\s", "[a-f]", "[^ ]", "GET", "err", "=", "\"", ":", "\\x00", "é", "[[:upper:]]", "\\{", "-"}
	if depth <= 0 {
		return vk.Pick(r, atoms)
	}
	switch r.Intn(7) {
	case 0:
		return genRegexNode(r, depth-1) + genRegexNode(r, depth-1)
	case 1:
		return "(" + genRegexNode(r, depth-1) + "|" + genRegexNode(r, depth-1) + ")"
	case 2:
		return "(?:" + genRegexNode(r, depth-1) + ")" + vk.Pick(r, []string{"*", "+", "?", "{1,2}", "*?"})
	case 3:
		return vk.Pick(r, atoms) + vk.Pick(r, []string{"*", "+", "?", "{0,3}"})
	case 4:
		return regexp.QuoteMeta(string(r.Bytes(r.Range(1, 3))))
	default:
		return vk.Pick(r, atoms) + vk.Pick(r, atoms)
	}
}

func genNeedle(r *vk.RNG, d *Dataset) string {
	switch r.Intn(8) {
	case 0:
		return string(r.Bytes(r.Range(1, 3)))
	case 1, 3, 4, 5:
		line := vk.Pick(r, d.Recs).Line
		if len(line) == 0 {
			return ""
		}
		a := r.Intn(len(line))
		b := a + r.Range(1, 5)
		if b > len(line) {
			b = len(line)
		}
		return line[a:b]
	case 2:
		return ""
	default:
		return vk.Pick(r, append(append([]string{}, genWords...), "r1", "info", "error", "\"", "=", "0"))
	}
}

type filt struct {
	Text string // stage text
	Neg  string // text of the negated stage ("" if none)
	Kind string
}

var c19Labels = []string{"app", "env", "pod", "raw", "nosuch", "level", "status", "user", "id"}

func genStatelessFilter(r *vk.RNG, d *Dataset) filt {
	switch r.Intn(8) {
	case 0, 1:
		n := quoteLogQL(genNeedle(r, d))
		return filt{Text: "|= " + n, Neg: "!= " + n, Kind: "line-contains"}
	case 2, 3:
		src := genRegex(r, 2)
		if r.Bool() {
			// derived from an actual line so that it often matches some but not all records
			// (anchored pure literals are what regexp "optimisations" special-case)
			src = vk.Pick(r, []string{"", "", "^", "(?s)^"}) + regexp.QuoteMeta(genNeedle(r, d)) + vk.Pick(r, []string{"", ".*", ".", "[a-z0-9]?", "$", "$", "\\z"})
			if _, err := regexp.Compile(src); err != nil {
				src = "r[0-9]"
			}
		}
		re := quoteLogQL(src)
		return filt{Text: "|~ " + re, Neg: "!~ " + re, Kind: "line-regex"}
	case 4:
		l := vk.Pick(r, c19Labels)
		if r.Chance(1, 5) {
			// the line itself is a label of the record (msg), not of its source
			v := quoteLogQL(vk.Pick(r, d.Recs).Line)
			return filt{Text: "| msg=" + v, Neg: "| msg!=" + v, Kind: "label-eq"}
		}
		v := quoteLogQL(vk.Pick(r, []string{"web", "prod", "p1", "", "info", "200", "alice", string(r.Bytes(2)), vk.Pick(r, d.Recs).Labels[l]}))
		return filt{Text: "| " + l + "=" + v, Neg: "| " + l + "!=" + v, Kind: "label-eq"}
	case 5:
		l := vk.Pick(r, c19Labels)
		if r.Chance(1, 5) {
			l = "msg"
		}
		re := quoteLogQL(genRegex(r, 1))
		return filt{Text: "| " + l + "=~" + re, Neg: "| " + l + "!~" + re, Kind: "label-regex"}
	default:
		// typed comparisons (no negation pair asserted: unparsable values are kept by both)
		unknown := 0
		var p *Pred
		for {
			p = genLeafPred(r, d)
			if p.Label != "__error__" {
				break
			}
		}
		_ = unknown
		return filt{Text: "| " + p.Text(), Kind: "label-" + p.Kind}
	}
}

type rset map[int64]flatEntry

func c19Eval(c *vk.Case, ds *Dataset, n int, text string) (rset, error) {
	// what the storage evaluates itself and where it keeps a label is its own business: both vary with
	// the case (not with the evaluation, so that the laws compare like with like)
	var caps []logql.BinOp
	if c.Idx%3 != 0 {
		caps = allStrOps
	}
	mq := &MemQuerier{Recs: ds.Recs, ErrAfter: -1, LabelCaps: caps, LineCaps: caps}
	if c.Idx%4 == 1 {
		mq.RecordLevel = map[string]bool{"env": true, "raw": true, "pod": true}
	}
	res, err := evalQuery(mq, text, logRangeParams(n))
	c.Eval(1)
	if err != nil {
		return nil, err
	}
	got, dup := flattenStreams(res)
	if dup != "" {
		return nil, fmt.Errorf("%s", dup)
	}
	return rset(got), nil
}

// sameEntryExact also compares the labels a failing stage sets: a filter that cannot fail (line filters,
// string matchers) leaves them as the stages before it wrote them.
func sameEntryExact(a, b flatEntry) bool {
	return a.Line == b.Line && mapsEqual(a.Labels, b.Labels)
}

func sameEntry(a, b flatEntry, withLabels bool) bool {
	if a.Line != b.Line {
		return false
	}
	if !withLabels {
		return true
	}
	return mapsEqual(without(a.Labels, "__error__", "__error_details__"), without(b.Labels, "__error__", "__error_details__"))
}

func keysOf(s rset) []int64 {
	out := make([]int64, 0, len(s))
	for k := range s {
		out = append(out, k)
	}
	sort.Slice(out, func(i, j int) bool { return out[i] < out[j] })
	return out
}

func runC19(r *vk.Run) {
	r.SetRule("metamorphic relations between engine results (no reference model): for random datasets (all formats; plain lines and a label with arbitrary bytes; unique timestamps), random prefix pipelines q (parsers, formatters, filters, distinct) and random stateless filters f,g " +
		"(needles with arbitrary bytes, random valid regexes, label matchers, typed comparisons): sub-multiset, negation partition (|=/!=, |~/!~, label =/!=, =~/!~), commutativity, idempotence, `a and b` = intersection, `a or b` = union, parenthesised nestings of and/or = the corresponding set expression with lines and labels unchanged, |= \"\" neutral. " +
		"non-trivial = distinct relation instances where R(q) is non-empty and the filter is neither total nor empty on it.")
	r.Assume("filters reading __error__ are excluded from the commutativity law (typed filters write it)", "entries compared by (timestamp, line) and labels modulo __error__/__error_details__")

	formats := []string{"json", "logfmt", "access", "packed", "plain", "mixed", "plain"}
	r.Phase("laws", r.N(5000, 400000), func(c *vk.Case) {
		rng := c.Rng
		n := rng.Range(5, 30)
		ds := genDataset(rng, formats[c.Idx%len(formats)], n, logT0)
		for i := range ds.Recs {
			if rng.Bool() {
				ds.Recs[i].Labels["raw"] = string(rng.Bytes(rng.Range(0, 3)))
			}
			// Docker keeps the line terminator inside the message: a filter selects lines, it does not
			// edit them
			if rng.Chance(1, 3) {
				ds.Recs[i].Line += vk.Pick(rng, []string{"\n", "\r\n", "\n\n", "\r"})
				c.Count("lines_with_terminator", 1)
			}
		}
		unknown, undecided := 0, 0
		var qt string
		var base rset
		var err error
		for tries := 0; tries < 5; tries++ {
			q := genLogQuery(rng, ds, genOpts{Distinct: rng.Chance(1, 4), MaxStages: 3}, &unknown, &undecided)
			if len(q.Sel) > 1 {
				q.Sel = q.Sel[:1]
			}
			if rng.Chance(1, 3) {
				pushStage(&q, genRewriteStage(rng, ds, true, false))
			}
			if n := len(q.Stages); n > 0 && (q.Stages[n-1].Kind == "drop" || q.Stages[n-1].Kind == "keep") {
				q.Stages = q.Stages[:n-1] // a following `!= "x"` would be read as part of the drop/keep list
			}
			if c.Idx%6 == 5 {
				// long prefixes: 9..20 further stages whose order matters (each appends a letter to the
				// same label), so a filter that re-arranges what precedes it cannot go unnoticed
				k := rng.Range(9, 20)
				for j := 0; j < k; j++ {
					q.Stages = append(q.Stages, Stage{Kind: "label_format", Text: fmt.Sprintf(`| label_format acc="{{.acc}}%c"`, 'a'+j)})
				}
				c.Count("long_prefix_pipelines", 1)
			}
			qt = q.Text()
			base, err = c19Eval(c, ds, n, qt)
			if err != nil || len(base) >= 3 {
				break // prefer prefixes with something to filter
			}
		}
		f := genStatelessFilter(rng, ds)
		g := genStatelessFilter(rng, ds)
		if err == nil && rng.Chance(1, 8) {
			// neighbouring filters of one polarity whose needles nest (one a piece of the other, the empty one
			// included): the prefix ends in one of them, f is the other -- each keeps its own meaning
			long := genNeedle(rng, ds)
			short := long[:len(long)/2]
			if rng.Chance(1, 4) {
				short = ""
			}
			a, b := long, short
			if rng.Bool() {
				a, b = b, a
			}
			op := vk.Pick(rng, []string{"!=", "!=", "|="})
			qt += " " + op + " " + quoteLogQL(a)
			base, err = c19Eval(c, ds, n, qt)
			f = filt{Text: "|= " + quoteLogQL(b), Neg: "!= " + quoteLogQL(b), Kind: "line-contains"}
			c.Count("nested_needle_neighbours", 1)
		}
		if rng.Chance(1, 5) {
			// the same regular-expression text in both kinds of position: a line filter is unanchored,
			// a label matcher is anchored, whichever of them the query mentions first
			src := vk.Pick(rng, []string{"web", "error", "a", "p1", "al", "GET", "r1", "prod", "info|warn", "[0-9]+", "e"})
			if rng.Bool() {
				src = regexp.QuoteMeta(genNeedle(rng, ds))
				if _, err := regexp.Compile(src); err != nil || src == "" {
					src = "r1"
				}
			}
			re := quoteLogQL(src)
			l := vk.Pick(rng, c19Labels)
			f = filt{Text: "|~ " + re, Neg: "!~ " + re, Kind: "line-regex"}
			g = filt{Text: "| " + l + "=~" + re, Neg: "| " + l + "!~" + re, Kind: "label-regex"}
			if rng.Bool() {
				f, g = g, f
			}
			c.Count("same_regex_text_in_both_positions", 1)
		}
		if c.Idx%10 == 7 {
			// JSON members that are arrays (a label holding a list), and several records of ONE stream whose
			// lines fail to parse in different ways (same labels but for the error details): a matcher and its
			// negation still split the result, and a filter leaves every record it keeps as q returned it
			arr := []string{`{"tags":["dev","prod"],"level":"info"}`, `{"tags":[],"level":"warn"}`, `{"tags":["prod"]}`, `{"tags":["dev"]}`, `{"tags":"prod"}`, `{"tags":[["prod"]]}`, `{"tags":[1,2]}`, `{"tags":["prod","prod"]}`, `{"tags":[""]}`, `{"tags":null}`}
			broken := []string{`{"tags":["dev"`, `not json at all`, `{"level":"info"`, `{"level" "x"}`, `[1,2`, `{"a":1}{`, `{"k":oops}`, `first`, `second line`}
			shared := copyMap(ds.Recs[0].Labels)
			for i := range ds.Recs {
				switch rng.Intn(3) {
				case 0:
					ds.Recs[i].Line = vk.Pick(rng, arr)
				case 1:
					ds.Recs[i].Line = vk.Pick(rng, broken)
					ds.Recs[i].Labels = copyMap(shared)
				}
			}
			qt = `{app=~".+"} | drop msg | json`
			base, err = c19Eval(c, ds, n, qt)
			switch rng.Intn(3) {
			case 0:
				v := quoteLogQL(vk.Pick(rng, []string{"prod", "dev", "", "[]", `["prod"]`, `["dev","prod"]`}))
				f = filt{Text: "| tags=" + v, Neg: "| tags!=" + v, Kind: "label-eq"}
			case 1:
				re := quoteLogQL(vk.Pick(rng, []string{"pr.*", ".*prod.*", "", ".*", "dev|prod", `\[.*`, ".+"}))
				f = filt{Text: "| tags=~" + re, Neg: "| tags!~" + re, Kind: "label-regex"}
			default:
				v := quoteLogQL(vk.Pick(rng, []string{"first", "not json", `{"tags":["dev"`, `"level"`, "oops", "[1,2", "second"}))
				f = filt{Text: "|= " + v, Neg: "!= " + v, Kind: "line-contains"}
			}
			c.Count("array_and_error_detail_cases", 1)
		}
		if c.Idx%11 == 6 {
			// the same text as a plain needle and as an ip() pattern are two different filters (10.0.0.5 is part
			// of the text 10.0.0.50, but not that address), next to each other in either order
			v := vk.Pick(rng, []string{"10.0.0.5", "10.0.0.200", "::1", "8.8.8.8", "172.16.5.4"})
			for i := range ds.Recs {
				if rng.Chance(1, 3) {
					ds.Recs[i].Line += vk.Pick(rng, []string{" peer " + v + "0", " peer " + v, " from 1" + v, " ver " + v + ".1"})
				}
			}
			base, err = c19Eval(c, ds, n, qt)
			op := vk.Pick(rng, []string{"|=", "!="})
			neg := map[string]string{"|=": "!=", "!=": "|="}[op]
			f = filt{Text: op + " " + quoteLogQL(v), Neg: neg + " " + quoteLogQL(v), Kind: "line-contains"}
			g = filt{Text: op + " ip(" + quoteLogQL(v) + ")", Kind: "line-ip"}
			if rng.Bool() {
				f, g = g, f
			}
			c.Count("needle_and_ip_pattern_of_one_text", 1)
		}
		det := func(extra map[string]any) map[string]any {
			m := map[string]any{"q": qt, "f": f, "g": g, "records": ds.Recs}
			for k, v := range extra {
				m[k] = v
			}
			return m
		}
		if err != nil {
			c.Fail("", "prefix query failed: "+qt+": "+err.Error(), det(nil))
			return
		}
		rf, err := c19Eval(c, ds, n, qt+" "+f.Text)
		if err != nil {
			c.Fail("", "filtered query failed: "+qt+" "+f.Text+": "+err.Error(), det(nil))
			return
		}
		nontrivial := len(base) > 0 && len(rf) > 0 && len(rf) < len(base)
		// sub-multiset
		for ts, e := range rf {
			b, ok := base[ts]
			if !ok || !sameEntry(b, e, true) {
				c.Fail("", fmt.Sprintf("R(q|f) not a subset of R(q): record ts=%d line=%q (in R(q): %v)", ts, e.Line, ok), det(map[string]any{"Rq": keysOf(base), "Rqf": keysOf(rf)}))
				return
			}
			if (strings.HasPrefix(f.Kind, "line-") || f.Kind == "label-eq" || f.Kind == "label-regex") && !sameEntryExact(b, e) {
				c.Fail("", fmt.Sprintf("R(q|f): record ts=%d carries labels %s, in R(q) it carries %s (f cannot fail: %s)", ts, labelKey(e.Labels), labelKey(b.Labels), f.Text), det(nil))
				return
			}
		}
		c.Count("law:subset", 1)
		// negation partition
		if f.Neg != "" {
			rn, err := c19Eval(c, ds, n, qt+" "+f.Neg)
			if err != nil {
				c.Fail("", "negated query failed: "+err.Error(), det(nil))
				return
			}
			for ts := range rn {
				if _, both := rf[ts]; both {
					c.Fail("", fmt.Sprintf("record ts=%d passes both %s and %s", ts, f.Text, f.Neg), det(map[string]any{"Rqf": keysOf(rf), "Rq_notf": keysOf(rn)}))
					return
				}
				if _, ok := base[ts]; !ok {
					c.Fail("", fmt.Sprintf("R(q|not f) contains ts=%d that R(q) lacks", ts), det(nil))
					return
				}
			}
			if len(rn)+len(rf) != len(base) {
				c.Fail("", fmt.Sprintf("%s and %s do not partition R(q): %d + %d != %d", f.Text, f.Neg, len(rf), len(rn), len(base)), det(map[string]any{"Rq": keysOf(base), "Rqf": keysOf(rf), "Rq_notf": keysOf(rn)}))
				return
			}
			c.Count("law:partition:"+f.Kind, 1)
			if nontrivial {
				c.Count("law:partition_nontrivial", 1)
			}
		}
		// idempotence
		rff, err := c19Eval(c, ds, n, qt+" "+f.Text+" "+f.Text)
		if err != nil {
			c.Fail("", "f|f failed: "+err.Error(), det(nil))
			return
		}
		if len(rff) != len(rf) {
			c.Fail("", fmt.Sprintf("filter not idempotent: |R(q|f|f)|=%d, |R(q|f)|=%d", len(rff), len(rf)), det(map[string]any{"Rqf": keysOf(rf), "Rqff": keysOf(rff)}))
			return
		}
		for ts, e := range rff {
			if b, ok := rf[ts]; !ok || !sameEntry(b, e, true) {
				c.Fail("", fmt.Sprintf("filter not idempotent at ts=%d", ts), det(nil))
				return
			}
		}
		c.Count("law:idempotent", 1)
		// commutativity
		rfg, err1 := c19Eval(c, ds, n, qt+" "+f.Text+" "+g.Text)
		rgf, err2 := c19Eval(c, ds, n, qt+" "+g.Text+" "+f.Text)
		if err1 != nil || err2 != nil {
			c.Fail("", fmt.Sprintf("f|g / g|f failed: %v / %v", err1, err2), det(nil))
			return
		}
		if len(rfg) != len(rgf) {
			c.Fail("", fmt.Sprintf("filters do not commute: |R(q|f|g)|=%d, |R(q|g|f)|=%d", len(rfg), len(rgf)), det(map[string]any{"Rqfg": keysOf(rfg), "Rqgf": keysOf(rgf)}))
			return
		}
		for ts, e := range rfg {
			if b, ok := rgf[ts]; !ok || !sameEntry(b, e, true) {
				c.Fail("", fmt.Sprintf("filters do not commute at ts=%d", ts), det(nil))
				return
			}
		}
		c.Count("law:commute", 1)
		// and / or for label predicates
		if strings.HasPrefix(f.Text, "| ") && strings.HasPrefix(g.Text, "| ") {
			rg, err := c19Eval(c, ds, n, qt+" "+g.Text)
			if err != nil {
				c.Fail("", "g failed: "+err.Error(), det(nil))
				return
			}
			fa, ga := strings.TrimPrefix(f.Text, "| "), strings.TrimPrefix(g.Text, "| ")
			for _, sep := range []string{" and ", ", ", " "} {
				rand, err := c19Eval(c, ds, n, qt+" | "+fa+sep+ga)
				if err != nil {
					c.Fail("", "a and b failed: "+err.Error(), det(nil))
					return
				}
				want := 0
				for ts := range rf {
					if _, ok := rg[ts]; ok {
						want++
						if _, ok := rand[ts]; !ok {
							c.Fail("", fmt.Sprintf("`a%sb` misses ts=%d which both a and b select", sep, ts), det(nil))
							return
						}
					}
				}
				if want != len(rand) {
					c.Fail("", fmt.Sprintf("`a%sb` selects %d records, intersection has %d", sep, len(rand), want), det(map[string]any{"a": keysOf(rf), "b": keysOf(rg), "a_and_b": keysOf(rand)}))
					return
				}
				c.Count("law:and", 1)
			}
			ror, err := c19Eval(c, ds, n, qt+" | "+fa+" or "+ga)
			if err != nil {
				c.Fail("", "a or b failed: "+err.Error(), det(nil))
				return
			}
			union := map[int64]bool{}
			for ts := range rf {
				union[ts] = true
			}
			for ts := range rg {
				union[ts] = true
			}
			for ts := range union {
				if _, ok := ror[ts]; !ok {
					c.Fail("", fmt.Sprintf("`a or b` misses ts=%d", ts), det(map[string]any{"a": keysOf(rf), "b": keysOf(rg), "a_or_b": keysOf(ror)}))
					return
				}
			}
			if len(ror) != len(union) {
				c.Fail("", fmt.Sprintf("`a or b` selects %d records, union has %d", len(ror), len(union)), det(map[string]any{"a": keysOf(rf), "b": keysOf(rg), "a_or_b": keysOf(ror)}))
				return
			}
			for ts, e := range ror {
				if b, ok := base[ts]; !ok || b.Line != e.Line {
					c.Fail("", fmt.Sprintf("`a or b` changed the line of ts=%d: %q -> %q", ts, b.Line, e.Line), det(nil))
					return
				}
			}
			c.Count("law:or", 1)
			if c.Idx%4 == 2 {
				// a chain of three or four equalities on ONE label, written in no particular order: the union of
				// what each selects alone, whatever the order they are written in
				vals := map[string]map[string]bool{}
				for _, e := range base {
					for k, v := range e.Labels {
						if vals[k] == nil {
							vals[k] = map[string]bool{}
						}
						vals[k][v] = true
					}
				}
				names := map[string]bool{}
				for k := range vals {
					names[k] = true
				}
				for _, l := range sortedKeys(names) {
					if len(vals[l]) < 3 || !validLabelName(l) || l == "msg" {
						continue
					}
					vs := sortedKeys(vals[l])
					for i := len(vs) - 1; i > 0; i-- {
						j := rng.Intn(i + 1)
						vs[i], vs[j] = vs[j], vs[i]
					}
					if len(vs) > 4 {
						vs = vs[:4]
					}
					var parts []string
					want := map[int64]bool{}
					for _, v := range vs {
						parts = append(parts, l+"="+quoteLogQL(v))
						for ts, e := range base {
							if e.Labels[l] == v {
								want[ts] = true
							}
						}
					}
					chain := strings.Join(parts, " or ")
					rc, err := c19Eval(c, ds, n, qt+" | "+chain)
					if err != nil {
						c.Fail("", "or-chain failed: "+qt+" | "+chain+": "+err.Error(), det(nil))
						return
					}
					for ts := range want {
						if _, ok := rc[ts]; !ok {
							c.Fail("", fmt.Sprintf("`%s` misses ts=%d, which carries one of the values", chain, ts), det(map[string]any{"chain": chain, "selected": keysOf(rc)}))
							return
						}
					}
					if len(rc) != len(want) {
						c.Fail("", fmt.Sprintf("`%s` selects %d records, %d carry one of the values", chain, len(rc), len(want)), det(map[string]any{"chain": chain, "selected": keysOf(rc)}))
						return
					}
					c.Count("law:or_chain_on_one_label", 1)
					break
				}
			}
			// `a or b and c` (no parentheses) = a ∪ (b ∩ c): the one mixed form whose grouping is the
			// same under every reading and is pinned by the suite
			h := genStatelessFilter(rng, ds)
			if strings.HasPrefix(h.Text, "| ") {
				ha := strings.TrimPrefix(h.Text, "| ")
				rh, err := c19Eval(c, ds, n, qt+" "+h.Text)
				if err != nil {
					c.Fail("", "h failed: "+err.Error(), det(nil))
					return
				}
				for _, sep := range []string{" and ", ", "} {
					text := qt + " | " + fa + " or " + ga + sep + ha
					rmix, err := c19Eval(c, ds, n, text)
					if err != nil {
						c.Fail("", "a or b and c failed: "+text+": "+err.Error(), det(nil))
						return
					}
					want := map[int64]bool{}
					for ts := range rf {
						want[ts] = true
					}
					for ts := range rg {
						if _, ok := rh[ts]; ok {
							want[ts] = true
						}
					}
					same := len(want) == len(rmix)
					for ts := range want {
						if _, ok := rmix[ts]; !ok {
							same = false
						}
					}
					if !same {
						c.Fail("", fmt.Sprintf("`a or b%sc` selects %d records, a ∪ (b ∩ c) has %d: %s", sep, len(rmix), len(want), text), det(map[string]any{"h": h, "a": keysOf(rf), "b": keysOf(rg), "c": keysOf(rh), "mixed": keysOf(rmix)}))
						return
					}
					c.Count("law:or-and-mixed", 1)
				}
				// parenthesised nestings: grouping is explicit, so the result is fixed by the set algebra;
				// every selected record must come back with the line and labels it has in R(q)
				inSet := func(s rset, ts int64) bool { _, ok := s[ts]; return ok }
				nested := []struct {
					text string
					in   func(ts int64) bool
				}{
					{"(" + fa + " and " + ha + ") or " + ga, func(ts int64) bool { return (inSet(rf, ts) && inSet(rh, ts)) || inSet(rg, ts) }},
					{"(" + fa + ", " + ha + ") or " + ga, func(ts int64) bool { return (inSet(rf, ts) && inSet(rh, ts)) || inSet(rg, ts) }},
					{"(" + fa + " or " + ha + ") and " + ga, func(ts int64) bool { return (inSet(rf, ts) || inSet(rh, ts)) && inSet(rg, ts) }},
					{fa + " and (" + ga + " or " + ha + ")", func(ts int64) bool { return inSet(rf, ts) && (inSet(rg, ts) || inSet(rh, ts)) }},
					{"(" + fa + " or " + ga + ") or (" + ha + " and " + fa + ")", func(ts int64) bool { return inSet(rf, ts) || inSet(rg, ts) }},
				}
				for _, nf := range nested {
					text := qt + " | " + nf.text
					rn, err := c19Eval(c, ds, n, text)
					if err != nil {
						c.Fail("", "nested predicate failed: "+text+": "+err.Error(), det(nil))
						return
					}
					want := 0
					for ts, b := range base {
						if !nf.in(ts) {
							continue
						}
						want++
						e, ok := rn[ts]
						if !ok {
							c.Fail("", fmt.Sprintf("`%s` misses ts=%d which the set algebra selects", nf.text, ts), det(map[string]any{"h": h, "a": keysOf(rf), "b": keysOf(rg), "c": keysOf(rh), "nested": keysOf(rn)}))
							return
						}
						if !sameEntry(b, e, true) {
							c.Fail("", fmt.Sprintf("`%s` changed record ts=%d: line %q -> %q", nf.text, ts, b.Line, e.Line), det(map[string]any{"h": h}))
							return
						}
					}
					if want != len(rn) {
						c.Fail("", fmt.Sprintf("`%s` selects %d records, the set algebra gives %d", nf.text, len(rn), want), det(map[string]any{"h": h, "a": keysOf(rf), "b": keysOf(rg), "c": keysOf(rh), "nested": keysOf(rn)}))
						return
					}
					c.Count("law:nested", 1)
				}
			}
		}
		// neutral filter
		re, err := c19Eval(c, ds, n, qt+` |= ""`)
		if err != nil || len(re) != len(base) {
			c.Fail("", fmt.Sprintf(`|= "" is not neutral: %d vs %d records (err=%v)`, len(re), len(base), err), det(nil))
			return
		}
		for ts, e := range re {
			if b, ok := base[ts]; !ok || !sameEntryExact(b, e) {
				c.Fail("", fmt.Sprintf(`|= "" changed record ts=%d`, ts), det(nil))
				return
			}
		}
		c.Count("law:neutral", 1)
		if nontrivial {
			c.Nontrivial(fmt.Sprintf("%d|%s|%s", c.Idx, qt, f.Text))
		}
		if len(base) > 0 {
			c.Count("nonempty_prefix_results", 1)
		}
		if c.Idx < 5 {
			c.Sample("laws", map[string]any{"q": qt, "f": f.Text, "not_f": f.Neg, "g": g.Text, "Rq": len(base), "Rqf": len(rf)})
		}
	})
	// the laws on records that are not unique (the same line at the same instant, in any neighbourhood) and
	// on more records than a default page or cap: entries are counted as a multiset of (timestamp, line)
	r.Phase("multiset", r.N(40, 2000), func(c *vk.Case) {
		rng := c.Rng
		var recs []Rec
		bulk := c.Idx%10 == 0
		if bulk {
			n := rng.Range(5200, 6500)
			for i := 0; i < n; i++ {
				recs = append(recs, Rec{TS: logT0 + int64(i+1)*1e6, Line: fmt.Sprintf("%s n=%d", vk.Pick(rng, []string{"A", "B", "B", "C"}), i), Labels: map[string]string{"app": "x"}})
			}
		} else {
			n := rng.Range(3, 12)
			ts := logT0 + 1e9
			for i := 0; i < n; i++ {
				if !rng.Chance(2, 3) {
					ts += 1e9
				}
				recs = append(recs, Rec{TS: ts, Line: vk.Pick(rng, []string{"A", "B", "A", "C x", "B"}), Labels: map[string]string{"app": "x"}})
			}
		}
		// (no prefix ends in a drop / keep list: a following `!= "x"` would be read as part of the list)
		q := `{app="x"}` + vk.Pick(rng, []string{"", " | drop msg | logfmt", ` | drop msg | label_format l="{{ __line__ }}"`, " | logfmt"})
		f := vk.Pick(rng, []filt{{Text: `|= "B"`, Neg: `!= "B"`}, {Text: `|~ "^A"`, Neg: `!~ "^A"`}, {Text: `| msg="B"`, Neg: `| msg!="B"`}, {Text: `|= "C"`, Neg: `!= "C"`}})
		if strings.Contains(q, "drop msg") && strings.HasPrefix(f.Text, "| msg") {
			f = filt{Text: `|= "A"`, Neg: `!= "A"`}
		}
		p := EvalP{Start: logT0, End: logT0 + int64(len(recs)+20)*1e9, Step: time.Second, Limit: vk.Pick(rng, []int{-1, 0})}
		bag := func(text string) (map[string]int, int, error) {
			res, err := evalQuery(&MemQuerier{Recs: recs, ErrAfter: -1}, text, p)
			c.Eval(1)
			m, tot := map[string]int{}, 0
			for _, st := range res.Streams {
				for _, e := range st.Entries {
					m[fmt.Sprintf("%d %q", e.TS, e.Line)]++
					tot++
				}
			}
			return m, tot, err
		}
		bq, nq, err1 := bag(q)
		bf, nf, err2 := bag(q + " " + f.Text)
		bn, nn, err3 := bag(q + " " + f.Neg)
		det := map[string]any{"q": q, "f": f, "records": len(recs), "limit": p.Limit}
		if !bulk {
			det["record_list"] = recs
		}
		if err1 != nil || err2 != nil || err3 != nil {
			c.Fail("", fmt.Sprintf("query failed: %v %v %v", err1, err2, err3), det)
			return
		}
		if nq != len(recs) {
			c.Fail("", fmt.Sprintf("%s returns %d entries for %d records", q, nq, len(recs)), det)
			return
		}
		for k, v := range bq {
			if bf[k]+bn[k] != v || (bf[k] != 0 && bn[k] != 0) {
				c.Fail("", fmt.Sprintf("entry %s: %d in R(q), %d in R(q %s), %d in R(q %s)", k, v, bf[k], f.Text, bn[k], f.Neg), det)
				return
			}
		}
		if nf+nn != nq {
			c.Fail("", fmt.Sprintf("%s and %s do not partition R(q): %d + %d != %d", f.Text, f.Neg, nf, nn, nq), det)
			return
		}
		c.Count("multiset_partitions", 1)
		if bulk {
			c.Count("multiset_partitions_over_5000_records", 1)
		}
		if nf > 0 && nn > 0 {
			c.Nontrivial(fmt.Sprintf("multiset|%d", c.Idx))
		}
	})
	r.Require("multiset_partitions", 30)
	r.Require("multiset_partitions_over_5000_records", 2)
	r.Require("law:subset", 1500)
	r.Require("array_and_error_detail_cases", 300)
	r.Require("law:partition_nontrivial", 150)
	r.Require("law:commute", 1500)
	r.Require("law:and", 300)
	r.Require("law:or", 100)
	r.Require("law:or_chain_on_one_label", 50)
	r.Require("law:nested", 100)
	r.Require("distinct_nontrivial", 200)
}

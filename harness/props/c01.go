//go:build verif

package props

import (
	"fmt"
	"net/netip"
	"strings"
	"time"

	"github.com/tdakkota/docker-logql/internal/logql"
	"github.com/tdakkota/docker-logql/internal/zzverif/vk"
)

func init() {
	register("C01", "exploration", 8*time.Minute, 60*time.Minute, runC01)
}

const logT0 = int64(1700000000) * 1e9

// calibrateMsgLabel finds out whether the engine exposes the line as label "msg" (a convention the
// properties do not fix).
func calibrateMsgLabel() (bool, error) {
	// the probe must not depend on the limit convention C08 is about: the first of "no limit" spelled as
	// -1, as 0 and as a large number that returns the record decides (C08 itself asserts that all agree)
	var res Result
	var err error
	for _, limit := range []int{-1, 0, 1000} {
		mq := &MemQuerier{Recs: []Rec{{TS: logT0 + 1e9, Line: "probe line", Labels: map[string]string{"app": "x"}}}, ErrAfter: -1}
		res, err = evalQuery(mq, `{app="x"}`, EvalP{Start: logT0, End: logT0 + 10e9, Step: time.Second, Limit: limit})
		if err == nil && len(res.Streams) == 1 {
			_, has := res.Streams[0].Labels["msg"]
			return has, nil
		}
	}
	return false, fmt.Errorf("calibration query failed: %v (%d streams)", err, len(res.Streams))
}

// probeLimits evaluates the one-record probe under every spelling of "no limit" and under limits that
// do not truncate; returns a description of the first one that does not return the record.
func probeLimits() string {
	for _, limit := range []int{-100, -5, -1, 0, 1, 2, 1000} {
		mq := &MemQuerier{Recs: []Rec{{TS: logT0 + 1e9, Line: "probe line", Labels: map[string]string{"app": "x"}}}, ErrAfter: -1}
		res, err := evalQuery(mq, `{app="x"}`, EvalP{Start: logT0, End: logT0 + 10e9, Step: time.Second, Limit: limit})
		n := 0
		for _, st := range res.Streams {
			n += len(st.Entries)
		}
		if err != nil || n != 1 {
			return fmt.Sprintf(`{app="x"} over one matching record with limit %d: %d entries (err=%v), expected 1`, limit, n, err)
		}
	}
	return ""
}

var allStrOps = []logql.BinOp{logql.OpEq, logql.OpNotEq, logql.OpRe, logql.OpNotRe}

func capsFromMask(mask int) (label, line []logql.BinOp) {
	for i, op := range allStrOps {
		if mask&(1<<i) != 0 {
			label = append(label, op)
		}
		if mask&(1<<(4+i)) != 0 {
			line = append(line, op)
		}
	}
	return
}

func logRangeParams(n int) EvalP {
	return EvalP{Start: logT0, End: logT0 + int64(n+5)*1e9, Step: time.Second, Limit: -1}
}

func runC01(r *vk.Run) {
	r.SetRule("datasets of 5..60 records (json / logfmt / access-log / packed / plain with arbitrary bytes / mixed; labels with absent values; tabulated numeric, duration, byte-size and IP field values incl. unparsable ones) x " +
		"queries of a selector (0..2 matchers, 4 operators, absent labels) and 0..5 stages (line filters incl. regex and ip(), parser stages fitting the format, label filters with string/number/duration/bytes/ip comparisons combined by and/or/,/juxtaposition/parentheses, __error__ tests, single-label distinct) " +
		"x storage capability configurations (which of = != =~ !~ the storage evaluates itself for labels and for lines: 4 per case in quick incl. none and all; all 256 on every 8th case and 16 on the rest in thorough). " +
		"Oracle: independent reference interpreter; result compared as a set of records identified by unique timestamp, with line, labels and __error__ presence. non-trivial = distinct (query, dataset) with >=1 stage whose result is neither empty nor the whole dataset.")
	r.Assume("storage returns the records of the requested interval in time order", "Go regexp, net/netip and strconv are a shared trusted base",
		"`!= ip()` on a line is asserted only where 'some address outside' and 'no address inside' agree; mixed and/or are parenthesised; multi-label distinct not generated",
		"label values given to typed comparisons come from tables with known meaning; cases touching an untabulated value are discarded (counted)")
	msg, err := calibrateMsgLabel()
	if err != nil {
		r.Inconclusive(err.Error())
		return
	}
	r.SetExtra("calibrated_msg_label", msg)

	formats := []string{"json", "logfmt", "access", "packed", "plain", "mixed"}
	r.Phase("eval", r.N(8000, 150000), func(c *vk.Case) {
		rng := c.Rng
		format := formats[c.Idx%len(formats)]
		n := rng.Range(5, 60)
		ds := genDataset(rng, format, n, logT0)
		unknown, undecided := 0, 0
		maxStages := 5
		if c.Idx%12 == 5 {
			// long pipelines (13 .. 24 stages): stages apply in the order they are written, however many there are
			maxStages = 24
		}
		q := genLogQuery(rng, ds, genOpts{Distinct: true, MaxStages: maxStages}, &unknown, &undecided)
		if c.Idx%12 == 5 {
			for tries := 0; len(q.Stages) < 13 && tries < 20; tries++ {
				q = genLogQuery(rng, ds, genOpts{Distinct: true, MaxStages: maxStages}, &unknown, &undecided)
			}
			if len(q.Stages) >= 13 {
				c.Count("pipelines_of_13_or_more_stages", 1)
			}
		}
		if rng.Chance(1, 5) {
			// a last stage that rewrites a label the records inherit from their source: whatever it writes
			// belongs to that one record; the selector and the filters before it read, for every record,
			// what the source says
			lbl := vk.Pick(rng, []string{"env", "app", "pod"})
			pushStage(&q, stLabelTemplate(lbl, Tmpl{Text: "{{ ." + lbl + " }}+{{ .app }}", Eval: func(e *Ent) (string, bool) { return e.L[lbl] + "+" + e.L["app"], true }}))
			c.Count("pipelines_rewriting_a_source_label", 1)
		}
		text := q.Text()
		model := q.RunModel(ds.Recs, msg)
		if unknown > 0 {
			c.Count("discarded_untabulated_value", 1)
			return
		}
		if undecided > 0 {
			c.Count("discarded_ip_negation_ambiguous", 1)
			return
		}
		var masks []int
		switch {
		case c.Thorough() && c.Idx%8 == 0:
			for m := 0; m < 256; m++ {
				masks = append(masks, m)
			}
		case c.Thorough():
			masks = []int{0, 255}
			for len(masks) < 16 {
				masks = append(masks, rng.Intn(256))
			}
		default:
			masks = []int{0, 255, rng.Intn(256), rng.Intn(256)}
		}
		for _, k := range q.Kinds() {
			c.Count("stage:"+k, 1)
		}
		c.Count("records_in", len(ds.Recs))
		c.Count("records_kept", len(model))
		first := ""
		// where the storage keeps a label (record, scope or resource attribute) is its own business: in
		// a third of the cases some labels are record- or scope-level, so records sharing one resource
		// differ in the labels a selector may name
		recLevel, scopeLevel := map[string]bool{}, map[string]bool{}
		if rng.Chance(1, 3) {
			names := map[string]bool{}
			for _, rec := range ds.Recs {
				for k := range rec.Labels {
					names[k] = true
				}
			}
			for _, k := range sortedKeys(names) {
				switch rng.Intn(4) {
				case 0, 1:
					recLevel[k] = true
				case 2:
					scopeLevel[k] = true
				}
			}
			c.Count("cases_with_record_level_labels", 1)
		}
		for _, mask := range masks {
			lc, nc := capsFromMask(mask)
			mq := &MemQuerier{Recs: ds.Recs, LabelCaps: lc, LineCaps: nc, ErrAfter: -1, RecordLevel: recLevel, ScopeLevel: scopeLevel}
			res, err := evalQuery(mq, text, logRangeParams(n))
			c.Eval(1)
			c.Seen("capability_configs", fmt.Sprint(mask))
			det := func() map[string]any {
				return map[string]any{"query": text, "stages": q.Kinds(), "records": ds.Recs, "format": format, "capability_mask": mask,
					"label_caps": fmt.Sprint(lc), "line_caps": fmt.Sprint(nc), "expected": model, "offloaded": mq.Offloaded}
			}
			if err != nil {
				d := det()
				d["error"] = err.Error()
				c.Fail("", fmt.Sprintf("well-formed query failed: %s: %v", text, err), d)
				return
			}
			if res.Kind != "streams" {
				c.Fail("", "log query did not return streams", det())
				return
			}
			got, dup := flattenStreams(res)
			if dup != "" {
				d := det()
				d["result"] = res
				c.Fail("", dup, d)
				return
			}
			if msgs := compareEntries(model, got, true); msgs != "" {
				d := det()
				d["result"] = res
				key := ""
				c.Fail(key, fmt.Sprintf("caps=%d %s: %s", mask, text, msgs), d)
				return
			}
			canon := res.Canonical()
			if first == "" {
				first = canon
			} else if canon != first {
				d := det()
				d["result"] = res
				d["first_config_result"] = first
				c.Fail("", "result differs between capability configurations for "+text, d)
				return
			}
			if len(mq.Offloaded) > 0 {
				c.Count("evaluations_with_offload", 1)
			}
		}
		if len(q.Stages) > 0 && len(model) > 0 && len(model) < len(ds.Recs) {
			c.Nontrivial(fmt.Sprintf("%d|%s", c.Idx, text))
		}
		if c.Idx < 12 && len(q.Stages) >= 2 && len(model) > 0 {
			c.Sample("eval", map[string]any{"query": text, "format": format, "records": len(ds.Recs), "kept": len(model), "first_line": ds.Recs[0].Line})
		}
		_ = strings.Join
	})
	// the same lines behind the Docker storage (model-free): 1..3 containers write the dataset's lines,
	// terminated or not, sometimes two at one instant; the query over the daemon's logs must return what
	// it returns over an in-memory storage holding exactly those records with the containers' labels
	r.Phase("daemon", r.N(700, 40000), func(c *vk.Case) {
		rng := c.Rng
		format := formats[c.Idx%len(formats)]
		n := rng.Range(4, 30)
		ds := genDataset(rng, format, n, logT0)
		nc := rng.Range(1, 3)
		inv := make([]CSpec, nc)
		for i := range inv {
			inv[i] = CSpec{ID: fmt.Sprintf("id%d", i), Name: fmt.Sprintf("/c%d", i), Image: "img", State: "running", Labels: map[string]string{"tier": vk.Pick(rng, []string{"a", "b"})}}
			if rng.Bool() {
				// a key the daemon allows and the query language does not: addressed by its sanitised name
				inv[i].Labels["com.example/team-name"] = vk.Pick(rng, []string{"web", "db"})
			}
		}
		var mem []Rec
		lastTS := make([]int64, nc)
		unterminated := 0
		for _, rec := range ds.Recs {
			ci := rng.Intn(nc)
			body := rec.Line
			if rng.Bool() {
				body += "\n"
			} else {
				unterminated++
			}
			ts := rec.TS
			if lastTS[ci] != 0 && rng.Chance(1, 5) {
				ts = lastTS[ci] // two writes at one instant
			}
			lastTS[ci] = ts
			inv[ci].Frames = append(inv[ci].Frames, Frame{Type: byte(1 + rng.Intn(2)), TS: ts, Body: body})
			lbls, _, _ := expectedContainerLabels3(inv[ci])
			mem = append(mem, Rec{TS: ts, Line: body, Labels: lbls})
		}
		sortRecs(mem)
		unknown, undecided := 0, 0
		q := genLogQuery(rng, ds, genOpts{MaxStages: 3}, &unknown, &undecided)
		q.Sel = []selMatcher{{Label: "container", Op: logql.OpRe, OpS: "=~", Value: "c.*"}}
		if rng.Bool() {
			ops := []selMatcher{{Op: logql.OpEq, OpS: "="}, {Op: logql.OpNotEq, OpS: "!="}, {Op: logql.OpRe, OpS: "=~"}, {Op: logql.OpNotRe, OpS: "!~"}}
			m := vk.Pick(rng, ops)
			m.Label, m.Value = vk.Pick(rng, []string{"com_example_team_name", "tier"}), vk.Pick(rng, []string{"web", "db", "a", ""})
			q.Sel = append(q.Sel, m)
		}
		text := q.Text()
		p := logRangeParams(n)
		want, err1 := evalQuery(&MemQuerier{Recs: mem, ErrAfter: -1}, text, p)
		got, err2 := evalQuery(dockerQuerier(newFakeDocker(inv)), text, p)
		c.Eval(2)
		det := map[string]any{"query": text, "inventory": inv, "over_memory": want, "over_daemon": got}
		if (err1 == nil) != (err2 == nil) {
			c.Fail("", fmt.Sprintf("%s: over memory err=%v, over the daemon err=%v", text, err1, err2), det)
			return
		}
		if err1 != nil {
			c.Count("queries_failing_on_both", 1)
			return
		}
		bag := func(r Result) map[string]int {
			m := map[string]int{}
			for _, s := range r.Streams {
				for _, e := range s.Entries {
					m[fmt.Sprintf("%d %q", e.TS, e.Line)]++
				}
			}
			return m
		}
		bw, bg := bag(want), bag(got)
		for k, nw := range bw {
			if bg[k] != nw {
				c.Fail("", fmt.Sprintf("%s: record %s returned %d times over the daemon's logs, %d times over the same records in memory", text, k, bg[k], nw), det)
				return
			}
		}
		for k, ng := range bg {
			if bw[k] != ng {
				c.Fail("", fmt.Sprintf("%s: record %s returned %d times over the daemon's logs, %d times over the same records in memory", text, k, ng, bw[k]), det)
				return
			}
		}
		c.Count("daemon_vs_memory_comparisons", 1)
		if unterminated > 0 && len(bw) > 0 {
			c.Nontrivial(fmt.Sprintf("daemon|%d", c.Idx))
			c.Count("daemon_cases_with_unterminated_lines", 1)
		}
	})
	r.Require("daemon_cases_with_unterminated_lines", 200)

	// numbers with more digits than a float64 holds (64-bit ids, nanosecond timestamps): a label filter
	// compares the digits that are written in the line, in every form of the json stage
	r.Phase("bigints", r.N(60, 3000), func(c *vk.Case) {
		rng := c.Rng
		ids := []string{"9007199254740993", "9007199254740992", "9007199254740994", "18014398509481985", "1234567890123456789", "1700000000123456789", "42"}
		var recs []Rec
		n := rng.Range(4, 12)
		owner := map[int64]string{}
		for i := 0; i < n; i++ {
			id := vk.Pick(rng, ids)
			ts := logT0 + int64(i+1)*1e9
			recs = append(recs, Rec{TS: ts, Line: fmt.Sprintf(`{"req":{"id":%s},"id":%s,"seq":%d}`, id, id, i), Labels: map[string]string{"app": "x"}})
			owner[ts] = id
		}
		want := vk.Pick(rng, ids)
		stage := vk.Pick(rng, []string{`| json rid="req.id"`, `| json rid="id"`, `| json id | label_format rid=id`, `| json | label_format rid=id`, `| json rid="req.id", seq="seq"`})
		for _, op := range []string{"=", "!="} {
			text := `{app="x"} ` + stage + ` | rid` + op + quoteLogQL(want)
			res, err := evalQuery(&MemQuerier{Recs: recs, ErrAfter: -1}, text, logRangeParams(n))
			c.Eval(1)
			det := map[string]any{"query": text, "records": recs, "result": res}
			if err != nil {
				c.Fail("", text+": "+err.Error(), det)
				return
			}
			got := map[int64]bool{}
			for _, st := range res.Streams {
				for _, e := range st.Entries {
					got[e.TS] = true
				}
			}
			for ts, id := range owner {
				if exp := (id == want) == (op == "="); got[ts] != exp {
					c.Fail("", fmt.Sprintf("%s: the record whose id is %s returned=%v", text, id, got[ts]), det)
					return
				}
				c.Count("big_integer_comparisons", 1)
			}
		}
		c.Nontrivial(fmt.Sprintf("bigints|%d", c.Idx))
	})
	r.Require("big_integer_comparisons", 500)

	// many stages: a parser followed by 11..18 label filters, one per stage, and a line filter at the very end
	// returns what the same conditions return when the label filters are written as ONE stage joined by
	// `and` and the line filter stands first (a line filter does not care where it stands among stages that
	// leave the line alone). Stages apply in the order written, however many there are
	r.Phase("longpipes", r.N(200, 20000), func(c *vk.Case) {
		rng := c.Rng
		n := rng.Range(8, 30)
		ds := genDataset(rng, "json", n, logT0)
		conds := []string{`id=~".+"`, `level!="nope"`, `level=~".+"`, `user!="nobody"`, `id!=""`, `level!="trace"`, `id=~"r[0-9]+"`, `user!~"zz.*"`, `status!="teapot"`, `addr!="nowhere"`,
			`level=~"info|warn|error|debug|.*"`, `id!="r999"`, `app=~".+"`, `size!="huge"`, `dur!="forever"`}
		k := rng.Range(11, 18)
		var picked []string
		for i := 0; i < k; i++ {
			picked = append(picked, vk.Pick(rng, conds))
		}
		needle := quoteLogQL(vk.Pick(rng, []string{"r", "level", "1", "\"id\"", "e"}))
		long := `{app=~".+"} | json | ` + strings.Join(picked, " | ") + ` |= ` + needle
		short := `{app=~".+"} |= ` + needle + ` | json | ` + strings.Join(picked, " and ")
		a, err1 := evalQuery(&MemQuerier{Recs: ds.Recs, ErrAfter: -1}, long, logRangeParams(n))
		b, err2 := evalQuery(&MemQuerier{Recs: ds.Recs, ErrAfter: -1}, short, logRangeParams(n))
		c.Eval(2)
		det := map[string]any{"long": long, "short": short, "records": ds.Recs}
		if err1 != nil || err2 != nil {
			c.Fail("", fmt.Sprintf("long pipeline: %v; one-stage form: %v", err1, err2), det)
			return
		}
		if a.Canonical() != b.Canonical() {
			det["long_result"], det["short_result"] = trunc(a.Canonical(), 2000), trunc(b.Canonical(), 2000)
			na, nb := 0, 0
			for _, st := range a.Streams {
				na += len(st.Entries)
			}
			for _, st := range b.Streams {
				nb += len(st.Entries)
			}
			c.Fail("", fmt.Sprintf("a pipeline of %d stages returns %d entries, the same conditions written as three stages return %d: %s", k+2, na, nb, long), det)
			return
		}
		c.Count("long_pipelines_compared", 1)
		if len(b.Streams) > 0 {
			c.Nontrivial(fmt.Sprintf("longpipes|%d", c.Idx))
		}
	})
	r.Require("long_pipelines_compared", 150)

	// an address inside running text: what stands directly before and after it (CJK / Cyrillic / accented
	// text written without blanks, quotes, brackets, punctuation) is not part of the address. Every line
	// holds exactly one address, so "contains an address inside the pattern" has one reading, for |= and !=
	r.Phase("ipneighbours", r.N(400, 40000), func(c *vk.Case) {
		rng := c.Rng
		neigh := []string{"失败", "连接", "失", "а", "й", "привет", "é", "ü", "ñ", "世界", "१", "٣", "🙂", "→", "\u00a0", "\u2028", "“", "”", "«", "\"", "[", "]", "(", ")", ",", ";", "=", " ", "<", ">", "'", "\t", "\xff", "\x80"}
		var recs []Rec
		inside := map[int64]bool{}
		pat := vk.Pick(rng, ipPats)
		set, _ := parseIPSet(pat)
		n := rng.Range(4, 12)
		for i := 0; i < n; i++ {
			addr := vk.Pick(rng, ipValues)
			before, after := vk.Pick(rng, neigh), vk.Pick(rng, neigh)
			if rng.Chance(1, 4) {
				before = ""
			}
			if rng.Chance(1, 4) {
				after = ""
			}
			if strings.Contains(addr, ":") && (strings.HasSuffix(before, ":") || strings.HasPrefix(after, ":")) {
				after, before = "", ""
			}
			line := vk.Pick(rng, []string{"", "connect ", "msg=", "连接"}) + before + addr + after + vk.Pick(rng, []string{"", " done", "失败", " ."})
			if strings.HasSuffix(before+"x", ".x") || strings.HasPrefix(after, ".") {
				continue
			}
			ts := logT0 + int64(i+1)*1e9
			recs = append(recs, Rec{TS: ts, Line: line, Labels: map[string]string{"app": "x"}})
			a, _ := netip.ParseAddr(addr)
			inside[ts] = set.contains(a)
		}
		for _, op := range []string{"|=", "!="} {
			text := `{app="x"} ` + op + ` ip(` + quoteLogQL(pat) + `)`
			res, err := evalQuery(&MemQuerier{Recs: recs, ErrAfter: -1}, text, logRangeParams(n))
			c.Eval(1)
			det := map[string]any{"query": text, "records": recs, "result": res}
			if err != nil {
				c.Fail("", text+": "+err.Error(), det)
				return
			}
			got := map[int64]bool{}
			for _, st := range res.Streams {
				for _, e := range st.Entries {
					got[e.TS] = true
				}
			}
			for _, rec := range recs {
				want := inside[rec.TS] == (op == "|=")
				if got[rec.TS] != want {
					c.Fail("", fmt.Sprintf("%s: line %q (its one address is inside the pattern: %v) returned=%v", text, rec.Line, inside[rec.TS], got[rec.TS]), det)
					return
				}
				c.Count("addresses_in_running_text", 1)
			}
		}
		c.Nontrivial(fmt.Sprintf("ipn|%d", c.Idx))
	})
	r.Require("addresses_in_running_text", 2000)
	r.Require("pipelines_of_13_or_more_stages", 200)

	// a container may write the same line twice within one clock reading: two records. Every record of the
	// dataset is given k identical copies (same timestamp, line, labels); a stateless pipeline must return
	// k copies of whatever it returns for one (model-free: compared with the evaluation over single copies)
	r.Phase("twins", r.N(300, 30000), func(c *vk.Case) {
		rng := c.Rng
		n := rng.Range(3, 12)
		ds := genDataset(rng, formats[c.Idx%len(formats)], n, logT0)
		unknown, undecided := 0, 0
		q := genLogQuery(rng, ds, genOpts{MaxStages: 3}, &unknown, &undecided)
		if rng.Chance(1, 3) {
			pushStage(&q, stDrop([]nameOrMatcher{{Name: "msg"}}))
		}
		text := q.Text()
		k := rng.Range(2, 3)
		var many []Rec
		for _, rec := range ds.Recs {
			for j := 0; j < k; j++ {
				many = append(many, rec)
			}
		}
		one, err1 := evalQuery(&MemQuerier{Recs: ds.Recs, ErrAfter: -1}, text, logRangeParams(n))
		all, err2 := evalQuery(&MemQuerier{Recs: many, ErrAfter: -1}, text, logRangeParams(n))
		c.Eval(2)
		det := map[string]any{"query": text, "records": ds.Recs, "copies": k, "single": one, "copied": all}
		if err1 != nil || err2 != nil {
			if (err1 == nil) != (err2 == nil) {
				c.Fail("", fmt.Sprintf("%s: err over single records %v, over %d copies %v", text, err1, k, err2), det)
			}
			return
		}
		bag := func(r Result) map[string]int {
			m := map[string]int{}
			for _, s := range r.Streams {
				for _, e := range s.Entries {
					m[fmt.Sprintf("%d %q %s", e.TS, e.Line, labelKey(s.Labels))]++
				}
			}
			return m
		}
		b1, bk := bag(one), bag(all)
		for key, cnt := range b1 {
			if bk[key] != cnt*k {
				c.Fail("", fmt.Sprintf("%s: entry %s is returned %d time(s) for one record and %d time(s) for %d identical records", text, key, cnt, bk[key], k), det)
				return
			}
		}
		if len(bk) != len(b1) {
			c.Fail("", fmt.Sprintf("%s: %d distinct entries over the copies, %d over single records", text, len(bk), len(b1)), det)
			return
		}
		c.Count("twin_record_evaluations", 1)
		if len(b1) > 0 {
			c.Nontrivial(fmt.Sprintf("twins|%d", c.Idx))
		}
	})
	r.Require("twin_record_evaluations", 200)

	// more records than any "sane" cap: 11000..15000 records, half of them matching, no limit -- every
	// matching record once
	r.Phase("bulk", r.N(2, 20), func(c *vk.Case) {
		rng := c.Rng
		n := rng.Range(11000, 15000) // more than 5000 of them match
		recs := make([]Rec, 0, n)
		want := 0
		for i := 0; i < n; i++ {
			line := fmt.Sprintf("kind=%s n=%d", vk.Pick(rng, []string{"keep", "drop"}), i)
			if strings.HasPrefix(line, "kind=keep") {
				want++
			}
			recs = append(recs, Rec{TS: logT0 + int64(i+1)*1e6, Line: line, Labels: map[string]string{"app": "x"}})
		}
		for _, limit := range []int{-1, 0, n + 1} {
			res, err := evalQuery(&MemQuerier{Recs: recs, ErrAfter: -1}, `{app="x"} |= "kind=keep" | drop msg`, EvalP{Start: logT0, End: logT0 + int64(n+5)*1e6, Step: time.Second, Limit: limit})
			c.Eval(1)
			got := 0
			seen := map[int64]bool{}
			for _, s := range res.Streams {
				for _, e := range s.Entries {
					got++
					seen[e.TS] = true
				}
			}
			if err != nil || got != want || len(seen) != want {
				c.Fail("", fmt.Sprintf("%d records, %d matching, limit %d: %d entries (%d distinct) returned, err=%v", n, want, limit, got, len(seen), err), map[string]any{"records": n, "matching": want, "limit": limit})
				return
			}
			c.Count("bulk_evaluations", 1)
		}
		c.Nontrivial(fmt.Sprintf("bulk|%d", c.Idx))
	})
	r.Require("bulk_evaluations", 6)

	// a line is malformed as a whole, however late it breaks: JSON lines that are well-formed up to and
	// including every field a stage asks for and broken after that are flagged like any other malformed
	// line, so `__error__=""` excludes them and `__error__!=""` returns them (model-free: the expectation
	// is the set of lines broken here)
	r.Phase("brokentail", r.N(300, 30000), func(c *vk.Case) {
		rng := c.Rng
		n := rng.Range(4, 14)
		var recs []Rec
		broken := map[int64]bool{}
		for i := 0; i < n; i++ {
			line := fmt.Sprintf(`{"id":"r%d","level":%q,"status":%d,"user":"u%d"}`, i, vk.Pick(rng, []string{"info", "warn"}), 200+rng.Intn(3), rng.Intn(3))
			ts := logT0 + int64(i+1)*1e9
			if rng.Chance(1, 3) {
				// (a complete object followed by further text is not among them: the stage can parse what it
				// needs from such a line, and the statement does not say the rest must be looked at)
				line = line[:len(line)-1] + vk.Pick(rng, []string{",}", `,"tail":}`, `,"tail"`, "", `,"x":tru}`, "]"})
				broken[ts] = true
			}
			recs = append(recs, Rec{TS: ts, Line: line, Labels: map[string]string{"app": "x"}})
		}
		stage := vk.Pick(rng, []string{"| json", "| json level", "| json id, level", "| json user, id, level, status", `| json l="level"`, "| json level, nosuch"})
		for _, want := range []bool{false, true} {
			op := `=""`
			if want {
				op = `!=""`
			}
			query := `{app="x"} ` + stage + ` | __error__` + op
			res, err := evalQuery(&MemQuerier{Recs: recs, ErrAfter: -1}, query, logRangeParams(n))
			c.Eval(1)
			det := map[string]any{"query": query, "records": recs}
			if err != nil {
				c.Fail("", query+" failed: "+err.Error(), det)
				return
			}
			got := map[int64]bool{}
			for _, st := range res.Streams {
				for _, e := range st.Entries {
					got[e.TS] = true
				}
			}
			for _, rec := range recs {
				if got[rec.TS] != (broken[rec.TS] == want) {
					c.Fail("", fmt.Sprintf("%s: line %q (malformed: %v) returned: %v", query, rec.Line, broken[rec.TS], got[rec.TS]), det)
					return
				}
			}
			c.Count("broken_tail_queries", 1)
		}
		if len(broken) > 0 && len(broken) < n {
			c.Nontrivial(fmt.Sprintf("brokentail|%d", c.Idx))
		}
	})
	r.Require("broken_tail_queries", 400)
	r.Require("distinct_nontrivial", 300)
	r.Require("evaluations_with_offload", 1000)
	r.Require("stage:distinct", 50)
	phaseFlaky(r, "C01")
	r.Require("stage:labelfilter", 500)
}

//go:build verif

package props

import (
	"context"
	"encoding/binary"
	"errors"
	"fmt"
	"io"
	"regexp"
	"sort"
	"strings"
	"sync"
	"time"

	"github.com/docker/docker/api/types"
	apicontainer "github.com/docker/docker/api/types/container"
	"github.com/docker/docker/client"
	"go.opentelemetry.io/collector/pdata/pcommon"

	"github.com/tdakkota/docker-logql/internal/iterators"
	"github.com/tdakkota/docker-logql/internal/logql"
	"github.com/tdakkota/docker-logql/internal/logql/logqlengine"
	"github.com/tdakkota/docker-logql/internal/logstorage"
	"github.com/tdakkota/docker-logql/internal/otelstorage"
)

// ---------------------------------------------------------------------------------------------
// In-memory engine Querier with configurable capabilities, event log and fault injection.

// Rec is one harness-side log record.
type Rec struct {
	TS     int64             `json:"ts"` // unix nanoseconds
	Line   string            `json:"line"`
	Labels map[string]string `json:"labels"`
}

type MemQuerier struct {
	Recs      []Rec // must be sorted by TS (stable)
	LabelCaps []logql.BinOp
	LineCaps  []logql.BinOp
	// Superset makes the storage ignore the requested interval (allowed for metric queries:
	// the window logic must not rely on storage trimming).
	Superset bool
	// FailSelectAt makes the k-th (1-based) SelectLogs call fail; 0 = never.
	FailSelectAt int
	// ErrAfter makes every iterator report Err() after yielding that many records; <0 = never.
	ErrAfter int
	// ErrOnCall restricts ErrAfter to the k-th (1-based) SelectLogs call; 0 = all calls.
	ErrOnCall int
	// RecordLevel names the labels the storage keeps as attributes of the record itself; ScopeLevel those
	// it keeps on the instrumentation scope. All others are resource attributes, and records whose
	// resource-level labels coincide share one resource map (as the records of one container do).
	RecordLevel map[string]bool
	ScopeLevel  map[string]bool

	mu          sync.Mutex
	selectCalls int
	opened      int
	closed      int
	faultsFired int
	protocol    []string // protocol violations seen (Next after Close, double Close is allowed)
	Offloaded   []string // what the engine offloaded, for evidence
	Windows     [][2]int64
}

var errInjected = errors.New("verif: injected storage fault")

func (m *MemQuerier) Capabilities() (caps logqlengine.QuerierCapabilities) {
	caps.Label.Add(m.LabelCaps...)
	caps.Line.Add(m.LineCaps...)
	return caps
}

// fullMatch is an independent formulation of "fully anchored": some match starting at 0 with
// leftmost-longest semantics must span all of s. (A leftmost match of a regexp that can match at
// offset 0 starts at 0; Longest() then makes it as long as possible.)
func fullMatch(re *regexp.Regexp, s string) bool {
	loc := re.FindStringIndex(s)
	return loc != nil && loc[0] == 0 && loc[1] == len(s)
}

var reCache sync.Map

// compileUser compiles the user-written regex text (not the engine's anchored one), leftmost-longest.
func compileUser(src string) *regexp.Regexp {
	if v, ok := reCache.Load(src); ok {
		return v.(*regexp.Regexp)
	}
	re := regexp.MustCompile(src)
	re.Longest()
	reCache.Store(src, re)
	return re
}

func oracleLabelMatch(op logql.BinOp, want string, have string) bool {
	switch op {
	case logql.OpEq:
		return have == want
	case logql.OpNotEq:
		return have != want
	case logql.OpRe:
		return fullMatch(compileUser(want), have)
	case logql.OpNotRe:
		return !fullMatch(compileUser(want), have)
	}
	panic("bad label op")
}

func oracleLineMatch(op logql.BinOp, want string, line string) bool {
	switch op {
	case logql.OpEq:
		return strings.Contains(line, want)
	case logql.OpNotEq:
		return !strings.Contains(line, want)
	case logql.OpRe:
		return compileUser(want).MatchString(line)
	case logql.OpNotRe:
		return !compileUser(want).MatchString(line)
	}
	panic("bad line op")
}

func (m *MemQuerier) SelectLogs(_ context.Context, start, end otelstorage.Timestamp, params logqlengine.SelectLogsParams) (iterators.Iterator[logstorage.Record], error) {
	m.mu.Lock()
	m.selectCalls++
	call := m.selectCalls
	m.Windows = append(m.Windows, [2]int64{int64(start), int64(end)})
	for _, lm := range params.Labels {
		m.Offloaded = append(m.Offloaded, "label:"+lm.Op.String())
	}
	for _, lf := range params.Line {
		m.Offloaded = append(m.Offloaded, "line:"+lf.Op.String())
	}
	if m.FailSelectAt != 0 && call == m.FailSelectAt {
		m.faultsFired++
		m.mu.Unlock()
		return nil, errInjected
	}
	m.mu.Unlock()

	var out []logstorage.Record
	shared := map[string]otelstorage.Attrs{}
recs:
	for _, rec := range m.Recs {
		if !m.Superset && (rec.TS < int64(start) || rec.TS > int64(end)) {
			continue
		}
		for _, lm := range params.Labels {
			if !oracleLabelMatch(lm.Op, lm.Value, rec.Labels[string(lm.Label)]) {
				continue recs
			}
		}
		for _, lf := range params.Line {
			if lf.IP {
				panic("verif: engine offloaded an ip() line filter")
			}
			if !oracleLineMatch(lf.Op, lf.Value, rec.Line) {
				continue recs
			}
		}
		// records of one label set share one resource map, the way all records of a container share
		// the container's resource in the Docker storage: a stage that writes into it would leak into
		// the following records
		r, resLabels := m.memRecordSplit(rec)
		lk := labelKey(resLabels)
		if res, ok := shared[lk]; ok {
			r.ResourceAttrs = res
		} else {
			shared[lk] = r.ResourceAttrs
		}
		out = append(out, r)
	}
	it := &memIter{m: m, recs: out, errAfter: -1}
	if m.ErrAfter >= 0 && (m.ErrOnCall == 0 || m.ErrOnCall == call) {
		it.errAfter = m.ErrAfter
	}
	m.mu.Lock()
	m.opened++
	m.mu.Unlock()
	return it, nil
}

func memRecord(rec Rec) logstorage.Record {
	res := pcommon.NewMap()
	keys := make([]string, 0, len(rec.Labels))
	for k := range rec.Labels {
		keys = append(keys, k)
	}
	sort.Strings(keys)
	for _, k := range keys {
		res.PutStr(k, rec.Labels[k])
	}
	return logstorage.Record{
		Timestamp:         otelstorage.Timestamp(rec.TS),
		ObservedTimestamp: otelstorage.Timestamp(rec.TS),
		Body:              rec.Line,
		Attrs:             otelstorage.Attrs(pcommon.NewMap()),
		ResourceAttrs:     otelstorage.Attrs(res),
	}
}

// memRecordSplit distributes the labels over the record's three attribute maps.
func (m *MemQuerier) memRecordSplit(rec Rec) (logstorage.Record, map[string]string) {
	if len(m.RecordLevel) == 0 && len(m.ScopeLevel) == 0 {
		return memRecord(rec), rec.Labels
	}
	res, attrs, scope := pcommon.NewMap(), pcommon.NewMap(), pcommon.NewMap()
	resLabels := map[string]string{}
	keys := make([]string, 0, len(rec.Labels))
	for k := range rec.Labels {
		keys = append(keys, k)
	}
	sort.Strings(keys)
	for _, k := range keys {
		switch {
		case m.RecordLevel[k]:
			attrs.PutStr(k, rec.Labels[k])
		case m.ScopeLevel[k]:
			scope.PutStr(k, rec.Labels[k])
		default:
			res.PutStr(k, rec.Labels[k])
			resLabels[k] = rec.Labels[k]
		}
	}
	return logstorage.Record{
		Timestamp:         otelstorage.Timestamp(rec.TS),
		ObservedTimestamp: otelstorage.Timestamp(rec.TS),
		Body:              rec.Line,
		Attrs:             otelstorage.Attrs(attrs),
		ScopeAttrs:        otelstorage.Attrs(scope),
		ResourceAttrs:     otelstorage.Attrs(res),
	}, resLabels
}

type memIter struct {
	m        *MemQuerier
	recs     []logstorage.Record
	n        int
	errAfter int
	err      error
	closed   bool
}

func (i *memIter) Next(r *logstorage.Record) bool {
	if i.closed {
		i.m.mu.Lock()
		i.m.protocol = append(i.m.protocol, "Next after Close")
		i.m.mu.Unlock()
		return false
	}
	if i.err != nil {
		return false
	}
	if i.errAfter >= 0 && i.n >= i.errAfter {
		i.err = errInjected
		i.m.mu.Lock()
		i.m.faultsFired++
		i.m.mu.Unlock()
		return false
	}
	if i.n >= len(i.recs) {
		return false
	}
	*r = i.recs[i.n]
	i.n++
	return true
}

func (i *memIter) Err() error { return i.err }

func (i *memIter) Close() error {
	i.m.mu.Lock()
	if !i.closed {
		i.m.closed++
	}
	i.closed = true
	i.m.mu.Unlock()
	return nil
}

// Ledger returns (opened, closed, faults fired, protocol violations).
func (m *MemQuerier) Ledger() (int, int, int, []string) {
	m.mu.Lock()
	defer m.mu.Unlock()
	return m.opened, m.closed, m.faultsFired, append([]string(nil), m.protocol...)
}

// ---------------------------------------------------------------------------------------------
// Docker multiplexed log framing (the harness's own encoder is the specification for C03).

type Frame struct {
	Type byte   `json:"type"` // 1 stdout, 2 stderr, 3 system error
	TS   int64  `json:"ts"`   // unix ns
	Zone int    `json:"zone"` // seconds east of UTC used when formatting the timestamp
	Body string `json:"body"`
	// Raw, when non-empty, replaces "<timestamp> <body>" as payload (corrupt frames).
	Raw string `json:"raw,omitempty"`
}

func (f Frame) payload() string {
	if f.Raw != "" {
		return f.Raw
	}
	t := time.Unix(0, f.TS)
	if f.Zone != 0 {
		t = t.In(time.FixedZone("", f.Zone))
	} else {
		t = t.UTC()
	}
	return t.Format(time.RFC3339Nano) + " " + f.Body
}

func EncodeFrames(frames []Frame) []byte {
	var out []byte
	for _, f := range frames {
		p := f.payload()
		var h [8]byte
		h[0] = f.Type
		binary.BigEndian.PutUint32(h[4:], uint32(len(p)))
		out = append(out, h[:]...)
		out = append(out, p...)
	}
	return out
}

// FrameBounds returns for each frame the byte offset where it starts and where it ends.
func FrameBounds(frames []Frame) (starts, ends []int) {
	off := 0
	for _, f := range frames {
		starts = append(starts, off)
		off += 8 + len(f.payload())
		ends = append(ends, off)
	}
	return
}

// ---------------------------------------------------------------------------------------------
// Readers with fragmentation, faults and an open/close ledger.

type ReadPlan struct {
	// Chunk: 0 = whole buffer per Read, n>0 = at most n bytes per Read, -1 = random chunks (uses Seed).
	Chunk int
	Seed  uint64
	// EOFWithData returns (n>0, io.EOF) on the final read instead of a separate (0, EOF).
	EOFWithData bool
	// ZeroReads interleaves (0, nil) reads.
	ZeroReads bool
	// FailAt >= 0: the Read that would deliver byte offset FailAt returns FailErr instead (after delivering what precedes).
	FailAt  int
	FailErr error
	// FaultCalls > 0: only the first FaultCalls ContainerLogs calls for the container get the fault; later
	// calls (a client that asks again) are served whole.
	FaultCalls int `json:"fault_calls,omitempty"`
	// OnFail, if set, runs just before the fault is delivered (e.g. cancels the query's context).
	OnFail func() `json:"-"`
	// OnReach, if set, runs once, right after the read that delivers byte offset ReachAt-1 (the reader has
	// handed over everything up to ReachAt; e.g. the user presses Ctrl-C at that moment).
	// CloseErr, if set, is what Close returns (a torn connection reports on Close as well); the reader counts
	// as closed all the same.
	CloseErr error `json:"-"`
	ReachAt  int   `json:"reach_at,omitempty"`
	OnReach func() `json:"-"`
}

type ledger struct {
	mu       sync.Mutex
	opened   int
	closed   int
	fired    int
	protocol []string
	events   []string
	progress map[string]int  // reader name -> bytes delivered so far
	eof      map[string]bool // reader name -> a Read returned io.EOF
}

func (l *ledger) note(name string, off int, eof bool) {
	l.mu.Lock()
	if l.progress == nil {
		l.progress = map[string]int{}
		l.eof = map[string]bool{}
	}
	if off > l.progress[name] {
		l.progress[name] = off
	}
	if eof {
		l.eof[name] = true
	}
	l.mu.Unlock()
}

func (l *ledger) ev(s string) {
	if len(l.events) < 4096 {
		l.events = append(l.events, s)
	}
}

type planReader struct {
	l       *ledger
	name    string
	data    []byte
	off     int
	plan    ReadPlan
	rng     uint64
	closed  bool
	zero    bool
	failed  bool
	reached bool
}

func newPlanReader(l *ledger, name string, data []byte, plan ReadPlan) *planReader {
	l.mu.Lock()
	l.opened++
	l.ev("open " + name)
	l.mu.Unlock()
	return &planReader{l: l, name: name, data: data, plan: plan, rng: plan.Seed | 1}
}

func (p *planReader) next() uint64 {
	p.rng += 0x9e3779b97f4a7c15
	z := p.rng
	z = (z ^ (z >> 30)) * 0xbf58476d1ce4e5b9
	z = (z ^ (z >> 27)) * 0x94d049bb133111eb
	return z ^ (z >> 31)
}

func (p *planReader) Read(b []byte) (int, error) {
	if p.closed {
		p.l.mu.Lock()
		p.l.protocol = append(p.l.protocol, "Read after Close on "+p.name)
		p.l.mu.Unlock()
		return 0, errors.New("verif: read after close")
	}
	if len(b) == 0 {
		return 0, nil
	}
	if p.failed {
		return 0, p.plan.FailErr
	}
	if p.plan.ZeroReads {
		p.zero = !p.zero
		if p.zero {
			return 0, nil
		}
	}
	rem := len(p.data) - p.off
	if p.plan.FailErr != nil && p.plan.FailAt >= 0 && p.plan.FailAt < len(p.data) {
		if p.off >= p.plan.FailAt {
			p.failed = true
			if p.plan.OnFail != nil {
				p.plan.OnFail()
			}
			p.l.mu.Lock()
			p.l.fired++
			p.l.ev(fmt.Sprintf("fault %s @%d", p.name, p.off))
			p.l.mu.Unlock()
			return 0, p.plan.FailErr
		}
		if rem > p.plan.FailAt-p.off {
			rem = p.plan.FailAt - p.off
		}
	}
	if rem == 0 {
		p.l.note(p.name, p.off, true)
		return 0, io.EOF
	}
	n := len(b)
	if n > rem {
		n = rem
	}
	switch {
	case p.plan.Chunk > 0 && n > p.plan.Chunk:
		n = p.plan.Chunk
	case p.plan.Chunk < 0:
		k := int(p.next()%uint64(17)) + 1
		if n > k {
			n = k
		}
	}
	copy(b, p.data[p.off:p.off+n])
	p.off += n
	p.l.note(p.name, p.off, false)
	if p.plan.OnReach != nil && !p.reached && p.off >= p.plan.ReachAt {
		p.reached = true
		p.plan.OnReach()
	}
	if p.plan.EOFWithData && p.off == len(p.data) && !(p.plan.FailErr != nil && p.plan.FailAt >= 0 && p.plan.FailAt < len(p.data)) {
		p.l.note(p.name, p.off, true)
		return n, io.EOF
	}
	return n, nil
}

func (p *planReader) Close() error {
	p.l.mu.Lock()
	if !p.closed {
		p.l.closed++
		p.l.ev("close " + p.name)
	}
	p.closed = true
	p.l.mu.Unlock()
	return p.plan.CloseErr
}

// ---------------------------------------------------------------------------------------------
// Fake Docker API client.

type FakeContainer struct {
	C       types.Container
	Stream  []byte // encoded frame stream returned by ContainerLogs
	LogsErr error  // if set ContainerLogs fails
	Plan    ReadPlan
}

type LogsCall struct {
	ID    string
	Since string
	Until string
	Opts  apicontainer.LogsOptions
}

type FakeDocker struct {
	client.APIClient // nil: any other method panics, which is what we want to know

	Containers []*FakeContainer
	ListErr    error
	// ListErrFrom > 0: only the listings from that call number on (1-based) fail with ListErr.
	ListErrFrom int
	// Gate, if set, is called at the start of every ContainerLogs with the container id, and may block.
	Gate func(id string)
	// Done, if set, is called when ContainerLogs is about to return (after the reader exists).
	Done func(id string)
	// FilterByTime makes the fake honour since/until like the daemon does (seconds with an optional
	// decimal fraction, inclusive).
	FilterByTime bool
	Frames       map[string][]Frame // needed when FilterByTime is set

	L         ledger
	mu        sync.Mutex
	ListCalls int
	Calls     []LogsCall
}

func (f *FakeDocker) ContainerList(_ context.Context, opts apicontainer.ListOptions) ([]types.Container, error) {
	f.mu.Lock()
	f.ListCalls++
	nth := f.ListCalls
	f.mu.Unlock()
	if f.ListErr != nil && nth >= f.ListErrFrom {
		f.L.mu.Lock()
		f.L.fired++
		f.L.mu.Unlock()
		return nil, f.ListErr
	}
	// what the daemon does with the listing options: without All only running containers are listed;
	// the filters label (raw key, or raw key=value; every one given must hold), id (prefix), name
	// (substring of a name), status (any of the given states) and ancestor (image) narrow the list
	out := make([]types.Container, 0, len(f.Containers))
	for _, c := range f.Containers {
		if !opts.All && c.C.State != "running" {
			continue
		}
		if !fakeListFilterMatch(opts, c.C) {
			continue
		}
		out = append(out, c.C)
	}
	if opts.Limit > 0 && len(out) > opts.Limit {
		out = out[:opts.Limit]
	}
	return out, nil
}

func fakeListFilterMatch(opts apicontainer.ListOptions, ctr types.Container) bool {
	fl := opts.Filters
	if fl.Len() == 0 {
		return true
	}
	for _, want := range fl.Get("label") {
		k, v, hasV := strings.Cut(want, "=")
		got, ok := ctr.Labels[k]
		if !ok || (hasV && got != v) {
			return false
		}
	}
	anyOf := func(key string, pred func(string) bool) bool {
		vals := fl.Get(key)
		if len(vals) == 0 {
			return true
		}
		for _, v := range vals {
			if pred(v) {
				return true
			}
		}
		return false
	}
	if !anyOf("id", func(v string) bool { return strings.HasPrefix(ctr.ID, v) }) {
		return false
	}
	if !anyOf("name", func(v string) bool {
		for _, n := range ctr.Names {
			if strings.Contains(n, v) {
				return true
			}
		}
		return false
	}) {
		return false
	}
	if !anyOf("status", func(v string) bool { return ctr.State == v }) {
		return false
	}
	if !anyOf("ancestor", func(v string) bool { return ctr.Image == v || ctr.ImageID == v }) {
		return false
	}
	return true
}

func (f *FakeDocker) ContainerLogs(_ context.Context, id string, opts apicontainer.LogsOptions) (io.ReadCloser, error) {
	f.mu.Lock()
	earlier := 0
	for _, c := range f.Calls {
		if c.ID == id {
			earlier++
		}
	}
	f.Calls = append(f.Calls, LogsCall{ID: id, Since: opts.Since, Until: opts.Until, Opts: opts})
	f.mu.Unlock()
	if f.Gate != nil {
		f.Gate(id)
	}
	if f.Done != nil {
		defer f.Done(id)
	}
	for _, c := range f.Containers {
		if c.C.ID != id {
			continue
		}
		if c.LogsErr != nil {
			f.L.mu.Lock()
			f.L.fired++
			f.L.ev("logs-error " + id)
			f.L.mu.Unlock()
			return nil, c.LogsErr
		}
		data := c.Stream
		if f.FilterByTime && f.Frames != nil {
			data = EncodeFrames(filterFrames(f.Frames[id], opts.Since, opts.Until))
		}
		plan := c.Plan
		if plan.FaultCalls > 0 && earlier >= plan.FaultCalls {
			plan.FailErr, plan.FailAt, plan.OnFail, plan.OnReach = nil, -1, nil, nil
		}
		return newPlanReader(&f.L, id, data, plan), nil
	}
	return nil, fmt.Errorf("verif: no such container %q", id)
}

// dockerTimestamp reads a since/until value the way the daemon does: "<seconds>" or
// "<seconds>.<fraction>", the fraction being a decimal fraction of a second (".5" is 500 ms, ".05" is
// 50 ms); anything else counts as "no bound".
func dockerTimestamp(v string, def int64) int64 {
	if v == "" {
		return def
	}
	secs, frac, hasFrac := strings.Cut(v, ".")
	var sec int64
	if _, err := fmt.Sscan(secs, &sec); err != nil {
		return def
	}
	ns := int64(0)
	if hasFrac {
		if len(frac) > 9 {
			frac = frac[:9]
		}
		var f int64
		if _, err := fmt.Sscan(frac, &f); err != nil {
			return def
		}
		for i := len(frac); i < 9; i++ {
			f *= 10
		}
		ns = f
	}
	return sec*1e9 + ns
}

func filterFrames(frames []Frame, since, until string) []Frame {
	var out []Frame
	s, u := dockerTimestamp(since, -1<<62), dockerTimestamp(until, 1<<62)
	for _, fr := range frames {
		if fr.TS < s || fr.TS > u {
			continue
		}
		out = append(out, fr)
	}
	return out
}

// OpenedIDs returns the ids for which ContainerLogs was called, sorted.
func (f *FakeDocker) OpenedIDs() []string {
	f.mu.Lock()
	defer f.mu.Unlock()
	var ids []string
	for _, c := range f.Calls {
		ids = append(ids, c.ID)
	}
	sort.Strings(ids)
	return ids
}

func (f *FakeDocker) Ledger() (opened, closed, fired int, protocol []string) {
	f.L.mu.Lock()
	defer f.L.mu.Unlock()
	return f.L.opened, f.L.closed, f.L.fired, append([]string(nil), f.L.protocol...)
}

func sortedKeys(m map[string]bool) []string {
	out := make([]string, 0, len(m))
	for k := range m {
		out = append(out, k)
	}
	sort.Strings(out)
	return out
}

//go:build verif

package props

import (
	"io"
	"strings"
	"errors"
	"fmt"
	"time"

	"go.opentelemetry.io/collector/pdata/pcommon"

	"github.com/tdakkota/docker-logql/internal/dockerlog"
	"github.com/tdakkota/docker-logql/internal/logstorage"
	"github.com/tdakkota/docker-logql/internal/otelstorage"
	"github.com/tdakkota/docker-logql/internal/zzverif/vk"
)

func init() {
	register("C03", "fault_enumeration", 5*time.Minute, 40*time.Minute, runC03)
}

var c03BodyAtoms = []string{"a", "hello", " ", "  ", "    main()", " \n", "   ", "\n", "\r\n", "\x00", "\xff", "\xc3", "é", "世界", "=", "\"", "\\", "2024-01-01T00:00:00Z ", "\t", "x y z", "{\"a\":1}", "\x1b[31m",
	// byte sequences that tools like to "clean up": byte order marks, other invisible characters, line and
	// paragraph separators, a replacement character that is really in the message
	"\xef\xbb\xbf", "\xef\xbb\xbf", "\xff\xfe", "\xfe\xff", "\u200b", "\u00a0", "\u2028", "\u0085", "\ufffd", "\x7f", "\x08"}

func genFrames(r *vk.RNG, maxN int) []Frame {
	n := r.Range(0, maxN)
	frames := make([]Frame, 0, n)
	for i := 0; i < n; i++ {
		var body string
		switch r.Intn(6) {
		case 0:
			body = ""
		case 1:
			body = string(r.Bytes(r.Range(1, 40)))
		default:
			k := r.Range(1, 6)
			for j := 0; j < k; j++ {
				body += vk.Pick(r, c03BodyAtoms)
			}
		}
		var ts int64
		switch r.Intn(6) {
		case 5:
			ts = -r.I64n(1 << vk.Pick(r, []uint{20, 40, 58, 62})) // before 1970: a date like any other (1969, 1815, 1700)
		case 0:
			ts = r.I64n(1 << 40) // near epoch, incl. 0..
		case 1:
			ts = (1<<63 - 1) - r.I64n(1<<40) // near 2262
		case 2:
			ts = int64(1700000000+r.Intn(1000)) * 1e9 // whole seconds
		default:
			ts = r.I64n(1<<63 - 1)
		}
		if i > 0 && r.Chance(1, 5) {
			ts = frames[i-1].TS // the same instant again (a burst within one clock tick)
		}
		zone := 0
		if r.Chance(1, 4) {
			zone = vk.Pick(r, []int{3600, -3600, 19800, -34200, 50400, -43200})
		}
		typ := byte(1)
		if r.Bool() {
			typ = 2
		}
		frames = append(frames, Frame{Type: typ, TS: ts, Zone: zone, Body: body})
	}
	return frames
}

type decoded struct {
	recs    []logstorage.Record
	err     error
	sticky  bool // error still reported after 2 more Next calls, and those returned false
	extra   int  // records yielded by Next calls made after Next had returned false
	errLost bool
}

func decodeStream(data []byte, plan ReadPlan, attrs otelstorage.Attrs) (decoded, *ledger) {
	l := &ledger{}
	rd := newPlanReader(l, "s", data, plan)
	it := dockerlog.ParseLog(rd, attrs)
	var d decoded
	var rec logstorage.Record
	for it.Next(&rec) {
		d.recs = append(d.recs, rec)
		if len(d.recs) > 10000 {
			break
		}
	}
	d.err = it.Err()
	d.sticky = true
	for k := 0; k < 2; k++ {
		if it.Next(&rec) {
			d.extra++
		}
		if d.err != nil && it.Err() == nil {
			d.errLost = true
			d.sticky = false
		}
	}
	_ = it.Close()
	return d, l
}

func frameDetail(frames []Frame, extra map[string]any) map[string]any {
	m := map[string]any{"frames": frames, "stream_hex": fmt.Sprintf("%x", EncodeFrames(frames))}
	for k, v := range extra {
		m[k] = v
	}
	return m
}

// compareRecords checks that got is exactly the first n frames.
func compareRecords(frames []Frame, n int, got []logstorage.Record) string {
	if len(got) != n {
		return fmt.Sprintf("decoded %d records, expected %d", len(got), n)
	}
	for i := 0; i < n; i++ {
		if int64(got[i].Timestamp) != frames[i].TS {
			return fmt.Sprintf("record %d: timestamp %d, expected %d", i, int64(got[i].Timestamp), frames[i].TS)
		}
		if got[i].Body != frames[i].Body {
			return fmt.Sprintf("record %d: body %q, expected %q", i, got[i].Body, frames[i].Body)
		}
	}
	return ""
}

func runC03(r *vk.Run) {
	r.SetRule("sequences of 0..12 generated records (bodies from adversarial atoms / random bytes, timestamps over 1970..2262 with ns digits and zone offsets, stdout+stderr) are encoded by the harness and decoded by ParseLog. " +
		"phase roundtrip: x7 read fragmentations. phase truncate: EVERY byte offset as cut point x2 fragmentations. phase corrupt: daemon-error / bad-timestamp / no-space frame at EVERY frame index. phase merged: a broken frame (often the first) in one of 2..4 merged containers. phase readerr: non-EOF read error at every byte. " +
		"non-trivial = distinct streams (per phase; plus one entry per corrupted frame position) with at least one record; the numbers of cut points, error frames and fired read errors are separate counters.")
	r.Assume("frame layout [type,0,0,0,len32be] + RFC3339Nano + ' ' + body is Docker's multiplexed framing with timestamps",
		"a cut after a complete header but before the end of its body counts as 'inside the frame body'",
		"'never silently dropped' includes: the error must still be reported if Next is called again after it returned false (the range-aggregation consumer does that)")
	r.SetExhaustive(true)
	attrs := otelstorage.Attrs(pcommon.NewMap())
	attrs.AsMap().PutStr("container", "c1")

	plans := []ReadPlan{
		{Chunk: 0, FailAt: -1}, {Chunk: 1, FailAt: -1}, {Chunk: 7, FailAt: -1}, {Chunk: -1, Seed: 11, FailAt: -1},
		{Chunk: -1, Seed: 12, EOFWithData: true, FailAt: -1}, {Chunk: 3, ZeroReads: true, FailAt: -1}, {Chunk: 0, EOFWithData: true, FailAt: -1},
	}

	r.Phase("roundtrip", r.N(400, 200000), func(c *vk.Case) {
		frames := genFrames(c.Rng, 12)
		if len(frames) > 0 && c.Rng.Chance(1, 8) {
			// a long record: the daemon copies output through a 16 KiB buffer, so chunks of exactly that
			// size (frame = timestamp + space + 16384 bytes) and longer bodies are ordinary
			n := vk.Pick(c.Rng, []int{16352, 16353, 16354, 16384, 16385, 20000, 65535, 65536, 70001})
			pat := vk.Pick(c.Rng, []string{"x", "ab ", "\xff\x00", "long line "})
			frames[c.Rng.Intn(len(frames))].Body = strings.Repeat(pat, n/len(pat)+1)[:n]
			c.Count("long_records", 1)
		}
		data := EncodeFrames(frames)
		for pi, plan := range plans {
			plan.Seed += uint64(c.Idx)
			d, l := decodeStream(data, plan, attrs)
			c.Eval(1)
			c.Count("fragmentations", 1)
			c.Count("records_decoded", len(d.recs))
			det := func() map[string]any { return frameDetail(frames, map[string]any{"plan": plan, "plan_index": pi}) }
			if msg := compareRecords(frames, len(frames), d.recs); msg != "" {
				c.Fail("", "clean stream: "+msg, det())
				return
			}
			if d.err != nil {
				c.Fail("", "clean stream reported error: "+d.err.Error(), det())
				return
			}
			if d.extra > 0 {
				c.Fail("", "records invented after end of stream", det())
				return
			}
			for i, rec := range d.recs {
				if v, ok := rec.ResourceAttrs.AsMap().Get("container"); !ok || v.Str() != "c1" {
					c.Fail("", fmt.Sprintf("record %d lost its resource attributes", i), det())
					return
				}
			}
			if l.closed != 1 {
				c.Fail("", "Close did not close the underlying reader", det())
			}
		}
		c.Count("streams", 1)
		if len(frames) > 0 {
			c.Nontrivial(fmt.Sprintf("rt:%x", data))
		}
		if c.Idx == 3 {
			c.Sample("roundtrip", map[string]any{"frames": frames})
		}
	})

	r.Require("long_records", 20)

	r.Phase("truncate", r.N(150, 60000), func(c *vk.Case) {
		frames := genFrames(c.Rng, 8)
		if len(frames) == 0 {
			frames = genFrames(c.Rng, 8)
		}
		data := EncodeFrames(frames)
		starts, ends := FrameBounds(frames)
		for cut := 0; cut <= len(data); cut++ {
			// expected: whole frames before cut
			n := 0
			for n < len(frames) && ends[n] <= cut {
				n++
			}
			where := "boundary"
			wantErr := false
			if n < len(frames) && cut > starts[n] {
				if cut-starts[n] < 8 {
					where = "header"
				} else {
					where = "body"
					wantErr = true
				}
			}
			for pi, plan := range []ReadPlan{{Chunk: 0, FailAt: -1}, {Chunk: 1, FailAt: -1}} {
				d, _ := decodeStream(data[:cut], plan, attrs)
				c.Eval(1)
				det := func() map[string]any {
					return frameDetail(frames, map[string]any{"cut": cut, "where": where, "plan_index": pi, "expected_records": n, "decoded": len(d.recs), "err": fmt.Sprint(d.err)})
				}
				if msg := compareRecords(frames, n, d.recs); msg != "" {
					c.Fail("", fmt.Sprintf("cut at %d (%s): %s", cut, where, msg), det())
					return
				}
				if wantErr && d.err == nil {
					c.Fail("", fmt.Sprintf("cut at %d inside a frame body ended without error", cut), det())
					return
				}
				if !wantErr && d.err != nil {
					c.Fail("", fmt.Sprintf("cut at %d (%s) reported error %v", cut, where, d.err), det())
					return
				}
				if d.extra > 0 {
					c.Fail("", fmt.Sprintf("cut at %d: records invented after the end", cut), det())
					return
				}
				if d.errLost {
					c.Fail("F03", fmt.Sprintf("cut at %d: error vanished when Next was called again", cut), det())
					return
				}
			}
			c.Count("cut_"+where, 1)
		}
		c.Nontrivial(fmt.Sprintf("cut:%x", data))
		if c.Idx == 0 {
			c.Sample("truncate", map[string]any{"frames": frames, "cuts": len(data) + 1})
		}
	})

	corruptKinds := []string{"daemon-error", "bad-timestamp", "no-space", "empty-payload"}
	r.Phase("corrupt", r.N(300, 100000), func(c *vk.Case) {
		frames := genFrames(c.Rng, 8)
		for len(frames) == 0 {
			frames = genFrames(c.Rng, 8)
		}
		for i := range frames {
			for _, kind := range corruptKinds {
				mod := append([]Frame(nil), frames...)
				switch kind {
				case "daemon-error":
					// whatever the daemon wrote into it, even nothing but a line break
					mod[i] = Frame{Type: 3, Raw: vk.Pick(c.Rng, []string{"error from daemon in stream: boom", "\n", " \r\n\t", "x", "Error grabbing logs: EOF\n"})}
				case "bad-timestamp":
					mod[i].Raw = vk.Pick(c.Rng, []string{"notatime body", "2024-13-01T00:00:00Z x", "1700000000 x", "2024-01-01 00:00:00 x", "T x",
						// Docker's own fixed-width shape with one field out of range
						"2024-13-01T00:00:00.000000000Z x", "2023-02-30T10:00:00.123456789Z x", "2023-02-29T10:00:00.000000000Z x", "2024-01-01T24:00:00.000000000Z x",
						"2024-01-01T10:60:00.000000000Z x", "2024-01-01T10:00:60.000000000Z x", "2024-01-00T10:00:00.000000000Z x", "2024-00-10T10:00:00.000000000Z x", "2024-04-31T00:00:00.000000000Z x",
						// ... or one digit position holding a byte below '0'
						"2024-01-0/T10:00:00.000000000Z x", "20 4-01-01T10:00:00.000000000Z x", "2024-01-01T10:00:00.00000000\x00Z x", "2024-01-01T1+:00:00.000000000Z x", "2024-01-01T10:00:00.-00000000Z x", ",024-01-01T10:00:00.000000000Z x", "2024-01-01T10:00:00.000/00000Z x"})
				case "no-space":
					mod[i].Raw = vk.Pick(c.Rng, []string{"2024-01-01T00:00:00Z", "nospace", "x"})
				case "empty-payload":
					// header announcing a zero-length payload: no timestamp at all
					mod[i] = Frame{Type: 1, Raw: ""}
				}
				var data []byte
				if kind == "empty-payload" {
					data = append(data, EncodeFrames(mod[:i])...)
					data = append(data, 1, 0, 0, 0, 0, 0, 0, 0)
					data = append(data, EncodeFrames(mod[i+1:])...)
				} else {
					data = EncodeFrames(mod)
				}
				for pi, plan := range []ReadPlan{{Chunk: 0, FailAt: -1}, {Chunk: -1, Seed: uint64(c.Idx), FailAt: -1}} {
					d, _ := decodeStream(data, plan, attrs)
					c.Eval(1)
					det := func() map[string]any {
						return frameDetail(mod, map[string]any{"corrupt_index": i, "kind": kind, "plan_index": pi, "decoded": len(d.recs), "err": fmt.Sprint(d.err)})
					}
					if msg := compareRecords(frames, i, d.recs); msg != "" {
						c.Fail("", fmt.Sprintf("%s frame at %d: %s", kind, i, msg), det())
						return
					}
					if d.err == nil {
						c.Fail("", fmt.Sprintf("%s frame at index %d not reported as an error", kind, i), det())
						return
					}
					if d.extra > 0 || d.errLost {
						c.Fail("F03", fmt.Sprintf("%s frame at index %d: after the error, calling Next again yielded %d more records / error lost=%v", kind, i, d.extra, d.errLost), det())
						return
					}
				}
				c.Count("error_frames:"+kind, 1)
				c.Nontrivial(fmt.Sprintf("corrupt:%d:%d:%s", c.Idx, i, kind))
			}
		}
		if c.Idx == 0 {
			c.Sample("corrupt", map[string]any{"frames": frames, "kinds": corruptKinds})
		}
	})

	ioErr := errors.New("verif: connection reset")
	// the same when the broken stream is one of several being merged: a frame that cannot be decoded is
	// an error of the merged stream too, wherever it sits — including the very first frame of a
	// container, which the merge reads while it is still setting itself up
	r.Phase("merged", r.N(300, 60000), func(c *vk.Case) {
		rng := c.Rng
		n := rng.Range(2, 4)
		var inv []CSpec
		for i := 0; i < n; i++ {
			cs := CSpec{ID: fmt.Sprintf("id%d", i), Name: fmt.Sprintf("/c%d", i), Image: "img", State: "running", Labels: map[string]string{}}
			for j := 0; j < rng.Range(1, 4); j++ {
				cs.Frames = append(cs.Frames, Frame{Type: 1, TS: 1700000000e9 + int64(j)*1e9 + int64(i), Body: fmt.Sprintf("c%d#%d\n", i, j)})
			}
			inv = append(inv, cs)
		}
		fd := newFakeDocker(inv)
		bad := rng.Intn(n)
		at := rng.Intn(len(inv[bad].Frames))
		if rng.Chance(2, 3) {
			at = 0
		}
		mod := append([]Frame(nil), inv[bad].Frames...)
		kind := vk.Pick(rng, []string{"daemon-error", "bad-timestamp", "no-space", "cut-in-body"})
		switch kind {
		case "daemon-error":
			mod[at] = Frame{Type: 3, Raw: "error from daemon in stream: boom"}
		case "bad-timestamp":
			mod[at].Raw = "2024-13-01T00:00:00.000000000Z x"
		case "no-space":
			mod[at].Raw = "nospace"
		}
		data := EncodeFrames(mod)
		if kind == "cut-in-body" {
			starts, ends := FrameBounds(mod)
			data = data[:starts[at]+8+(ends[at]-starts[at]-8)/2+1]
		}
		fd.Containers[bad].Stream = data
		_, openErr, iterErr := drainSelect(fd)
		c.Eval(1)
		det := map[string]any{"inventory": inv, "broken_container": bad, "broken_frame": at, "kind": kind}
		if openErr == nil && iterErr == nil {
			c.Fail("", fmt.Sprintf("%s frame at index %d of container %d (of %d merged) not reported as an error", kind, at, bad, n), det)
			return
		}
		// the same broken stream behind every kind of query: whoever consumes the records, the corruption is
		// reported (log query, instant and range metric query)
		for _, ev := range []struct {
			q string
			p EvalP
		}{
			{`{container=~"c.+"}`, EvalP{Start: 1700000000e9 - 10e9, End: 1700000000e9 + 20e9, Step: time.Second, Limit: -1}},
			{`count_over_time({container=~"c.+"}[1h])`, EvalP{Start: 1700000000e9 + 20e9, End: 1700000000e9 + 20e9}},
			{`sum(count_over_time({container=~"c.+"}[1h]))`, EvalP{Start: 1700000000e9 + 20e9, End: 1700000000e9 + 20e9}},
			{`count_over_time({container=~"c.+"}[10s])`, EvalP{Start: 1700000000e9, End: 1700000000e9 + 20e9, Step: 5 * time.Second}},
		} {
			fd2 := newFakeDocker(inv)
			fd2.Containers[bad].Stream = data
			_, err := evalQuery(dockerQuerier(fd2), ev.q, ev.p)
			c.Eval(1)
			if err == nil {
				det["query"], det["params"] = ev.q, ev.p
				c.Fail("", fmt.Sprintf("%s frame at index %d of container %d (of %d): %s (instant=%v) evaluated without error", kind, at, bad, n, ev.q, ev.p.Step == 0), det)
				return
			}
			c.Count("merged_broken_streams_behind_queries", 1)
		}
		c.Count("merged_broken_streams", 1)
		if at == 0 {
			c.Count("merged_broken_first_frame", 1)
		}
		c.Nontrivial(fmt.Sprintf("merged|%d", c.Idx))
	})
	r.Require("merged_broken_first_frame", 100)

	// fault-free logs of several containers read through one selection: every container's records come
	// back exactly, in the order the daemon delivered them, also when consecutive records of a container
	// (the first-listed one included) carry one and the same nanosecond timestamp
	r.Phase("mergedclean", r.N(300, 60000), func(c *vk.Case) {
		rng := c.Rng
		n := rng.Range(2, 4)
		var inv []CSpec
		for i := 0; i < n; i++ {
			cs := CSpec{ID: fmt.Sprintf("id%d", i), Name: fmt.Sprintf("/c%d", i), Image: "img", State: "running", Labels: map[string]string{}}
			ts := int64(1700000000e9) + int64(rng.Intn(3))*1e9
			for j := 0; j < rng.Range(0, 7); j++ {
				if !rng.Chance(1, 3) {
					ts += int64(rng.Range(1, 2000)) * 1e6
				}
				body := fmt.Sprintf("c%d#%d %s", i, j, vk.Pick(rng, []string{"panic: boom", "goroutine 1 [running]:", "", " lead", "x\ty"}))
				if !rng.Chance(1, 4) {
					body += "\n"
				}
				cs.Frames = append(cs.Frames, Frame{Type: byte(1 + rng.Intn(2)), TS: ts, Body: body})
				if rng.Chance(1, 5) {
					// the same bytes at the same instant again (stdout and stderr, a blank line twice): two records
					cs.Frames = append(cs.Frames, Frame{Type: byte(1 + rng.Intn(2)), TS: ts, Body: body})
					j++
				}
			}
			if i > 0 && len(cs.Frames) > 0 && len(inv[0].Frames) > 0 && rng.Chance(1, 4) {
				cs.Frames[0] = Frame{Type: 1, TS: inv[0].Frames[0].TS, Body: inv[0].Frames[0].Body} // and the same record in two containers
				for k := 1; k < len(cs.Frames); k++ {
					if cs.Frames[k].TS < cs.Frames[0].TS {
						cs.Frames[k].TS = cs.Frames[0].TS
					}
				}
			}
			inv = append(inv, cs)
		}
		recs, openErr, iterErr := drainSelect(newFakeDocker(inv))
		c.Eval(1)
		det := map[string]any{"inventory": inv, "delivered": recs}
		if openErr != nil || iterErr != nil {
			c.Fail("", fmt.Sprintf("fault-free logs of %d containers: open err %v, read err %v", n, openErr, iterErr), det)
			return
		}
		next := map[string]int{}
		byID := map[string]CSpec{}
		for _, cs := range inv {
			byID[cs.ID] = cs
		}
		for pos, r := range recs {
			cs, ok := byID[r.CID]
			k := next[r.CID]
			if !ok || k >= len(cs.Frames) || cs.Frames[k].TS != r.TS || cs.Frames[k].Body != r.Line {
				c.Fail("", fmt.Sprintf("position %d: container %q delivered (%d, %q) where its record #%d is expected", pos, r.CID, r.TS, r.Line, k), det)
				return
			}
			next[r.CID] = k + 1
		}
		ties := 0
		for _, cs := range inv {
			if next[cs.ID] != len(cs.Frames) {
				c.Fail("", fmt.Sprintf("container %s: %d of %d records delivered", cs.ID, next[cs.ID], len(cs.Frames)), det)
				return
			}
			for j := 1; j < len(cs.Frames); j++ {
				if cs.Frames[j].TS == cs.Frames[j-1].TS {
					ties++
				}
			}
		}
		c.Count("merged_clean_streams", 1)
		if ties > 0 {
			c.Count("merged_clean_with_repeated_timestamps", 1)
			c.Nontrivial(fmt.Sprintf("mergedclean|%d", c.Idx))
		}
	})
	r.Require("merged_clean_with_repeated_timestamps", 100)

	r.Phase("readerr", r.N(100, 40000), func(c *vk.Case) {
		frames := genFrames(c.Rng, 6)
		for len(frames) == 0 {
			frames = genFrames(c.Rng, 6)
		}
		data := EncodeFrames(frames)
		_, ends := FrameBounds(frames)
		for at := 0; at < len(data); at++ {
			n := 0
			for n < len(frames) && ends[n] <= at {
				n++
			}
			plan := ReadPlan{Chunk: vk.Pick(c.Rng, []int{0, 1, 5}), FailAt: at, FailErr: []error{ioErr, fmt.Errorf("verif: read unix: %w", io.ErrUnexpectedEOF), fmt.Errorf("verif: stream closed: %w", io.EOF)}[at%3]}
			d, l := decodeStream(data, plan, attrs)
			c.Eval(1)
			det := func() map[string]any {
				return frameDetail(frames, map[string]any{"fail_at": at, "plan": fmt.Sprint(plan), "decoded": len(d.recs), "err": fmt.Sprint(d.err), "fired": l.fired})
			}
			if l.fired == 0 {
				c.Count("readerr_not_fired", 1)
				continue
			}
			if msg := compareRecords(frames, n, d.recs); msg != "" {
				c.Fail("", fmt.Sprintf("read error at byte %d: %s", at, msg), det())
				return
			}
			if d.err == nil {
				c.Fail("", fmt.Sprintf("read error at byte %d not reported", at), det())
				return
			}
			if d.extra > 0 {
				c.Fail("", fmt.Sprintf("read error at byte %d: records invented afterwards", at), det())
				return
			}
			c.Count("read_errors_fired", 1)
		}
		c.Nontrivial(fmt.Sprintf("readerr:%x", data))
	})
	phaseReuse(r)
	r.Require("streams", 100)
	r.Require("cut_body", 1000)
	r.Require("cut_header", 500)
	r.Require("read_errors_fired", 1000)
}

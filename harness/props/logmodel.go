//go:build verif

package props

import (
	"bytes"
	"encoding/json"
	"fmt"
	"math"
	"net/netip"
	"regexp"
	"sort"
	"strings"
	"time"
	"unicode/utf8"

	"github.com/tdakkota/docker-logql/internal/logql"
)

// ---------------------------------------------------------------------------------------------
// Reference interpreter of log pipelines (the oracle of C01, C06, C07, C08).

const (
	errNone   = 0 // __error__ must be absent
	errYes    = 1 // __error__ must be present
	errEither = 2 // not decided by the statement
)

// Ent is the reference model's view of one record flowing through a pipeline.
type Ent struct {
	TS   int64
	Line string
	L    map[string]string
	Err  int
	// Loose is set when a stage left the labels it may have added unspecified (malformed input,
	// non-matching pattern): only labels in Base are then compared.
	Loose bool
	// LineAny is set when a stage's effect on this line is not fixed by the statement (decolorize
	// over a line with escape bytes the harness did not write as colour sequences).
	LineAny bool
}

func (e *Ent) flag() {
	if e.Err == errNone {
		e.Err = errYes
	}
}

// Stage is one pipeline stage: its text and a factory for its (possibly stateful) reference semantics.
type Stage struct {
	Kind string
	Text string
	// LineRewriting stages stop the engine from offloading later line filters (informational).
	mk func() func(e *Ent) bool
}

func stateless(kind, text string, f func(e *Ent) bool) Stage {
	return Stage{Kind: kind, Text: text, mk: func() func(e *Ent) bool { return f }}
}

// LogQ is a harness-side log query.
type LogQ struct {
	Sel    []selMatcher
	Stages []Stage
}

func (q LogQ) Text() string {
	var sb strings.Builder
	sb.WriteString(renderSelector(q.Sel))
	for _, s := range q.Stages {
		sb.WriteByte(' ')
		sb.WriteString(s.Text)
	}
	return sb.String()
}

func (q LogQ) Kinds() []string {
	out := make([]string, len(q.Stages))
	for i, s := range q.Stages {
		out[i] = s.Kind
	}
	return out
}

// RunModel evaluates the query over the records (in time order) with the reference semantics.
// msgLabel: the engine's calibrated convention of exposing the line as label "msg".
func (q LogQ) RunModel(recs []Rec, msgLabel bool) []Ent {
	sorted := append([]Rec(nil), recs...)
	sort.SliceStable(sorted, func(i, j int) bool { return sorted[i].TS < sorted[j].TS })
	fns := make([]func(e *Ent) bool, len(q.Stages))
	for i, s := range q.Stages {
		fns[i] = s.mk()
	}
	var out []Ent
recs:
	for _, r := range sorted {
		for _, m := range q.Sel {
			if !oracleLabelMatch(m.Op, m.Value, r.Labels[m.Label]) {
				continue recs
			}
		}
		e := Ent{TS: r.TS, Line: r.Line, L: copyMap(r.Labels)}
		if msgLabel && r.Line != "" {
			e.L["msg"] = r.Line
		}
		for _, f := range fns {
			if !f(&e) {
				continue recs
			}
		}
		out = append(out, e)
	}
	return out
}

// ---- line filters

func stLineFilter(op string, value string) Stage {
	var text string
	switch op {
	case "|=", "!=", "|~", "!~":
		text = op + " " + quoteLogQL(value)
	}
	return stateless("line"+op, text, func(e *Ent) bool {
		switch op {
		case "|=":
			return strings.Contains(e.Line, value)
		case "!=":
			return !strings.Contains(e.Line, value)
		case "|~":
			return compileUser(value).MatchString(e.Line)
		default:
			return !compileUser(value).MatchString(e.Line)
		}
	})
}

// ipSet is the harness's own membership test for ip() patterns: single address, a-b range, CIDR.
type ipSet struct {
	lo, hi [16]byte
	v4     bool
}

func addr16(a netip.Addr) ([16]byte, bool) { return a.As16(), a.Is4() }

func parseIPSet(p string) (ipSet, bool) {
	var s ipSet
	switch {
	case strings.Contains(p, "-"):
		parts := strings.SplitN(p, "-", 2)
		a, e1 := netip.ParseAddr(parts[0])
		b, e2 := netip.ParseAddr(parts[1])
		if e1 != nil || e2 != nil || a.Is4() != b.Is4() {
			return s, false
		}
		s.lo, s.v4 = addr16(a)
		s.hi, _ = addr16(b)
	case strings.Contains(p, "/"):
		parts := strings.SplitN(p, "/", 2)
		a, err := netip.ParseAddr(parts[0])
		if err != nil {
			return s, false
		}
		var bits int
		if _, err := fmt.Sscan(parts[1], &bits); err != nil {
			return s, false
		}
		s.lo, s.v4 = addr16(a)
		s.hi = s.lo
		total := 128
		if s.v4 {
			bits += 96
		}
		for i := bits; i < total; i++ {
			s.lo[i/8] &^= 1 << (7 - i%8)
			s.hi[i/8] |= 1 << (7 - i%8)
		}
	default:
		a, err := netip.ParseAddr(p)
		if err != nil {
			return s, false
		}
		s.lo, s.v4 = addr16(a)
		s.hi = s.lo
	}
	return s, true
}

func (s ipSet) contains(a netip.Addr) bool {
	b, v4 := addr16(a)
	if v4 != s.v4 {
		return false
	}
	return bytes.Compare(b[:], s.lo[:]) >= 0 && bytes.Compare(b[:], s.hi[:]) <= 0
}

// lineAddrs returns the whitespace-delimited tokens of a line that are IP addresses.
func lineAddrs(line string) []netip.Addr {
	var out []netip.Addr
	for _, tok := range strings.Fields(line) {
		if a, err := netip.ParseAddr(tok); err == nil && !strings.Contains(tok, "%") {
			out = append(out, a)
		}
	}
	return out
}

// stLineIP: `|= ip("p")` keeps lines containing an address inside p. For `!= ip("p")` the two
// readings ("some address outside p" / "no address inside p") are both accepted: the model marks
// the decision undefined when they disagree, via the decided callback.
func stLineIP(op string, pattern string, undecided *int) Stage {
	set, ok := parseIPSet(pattern)
	if !ok {
		panic("bad ip pattern " + pattern)
	}
	text := op + " ip(" + quoteLogQL(pattern) + ")"
	return stateless("line"+op+"ip", text, func(e *Ent) bool {
		addrs := lineAddrs(e.Line)
		in, outn := 0, 0
		for _, a := range addrs {
			if set.contains(a) {
				in++
			} else {
				outn++
			}
		}
		if op == "|=" {
			return in > 0
		}
		// !=
		if len(addrs) == 0 || (in > 0 && outn > 0) {
			*undecided++
		}
		return outn > 0
	})
}

// ---- label filter predicates

type Pred struct {
	Kind  string // str num dur bytes ip and or paren
	Label string
	Op    string // = != =~ !~ == > >= < <=
	Val   string // operand as written (string value / regex / ip pattern / literal text)
	Num   float64
	L, R  *Pred
	Sep   string // for and: " and ", ", ", " "
}

func (p *Pred) Text() string {
	switch p.Kind {
	case "str":
		return p.Label + p.Op + quoteLogQL(p.Val)
	case "num", "dur", "bytes":
		return p.Label + " " + p.Op + " " + p.Val
	case "ip":
		return p.Label + " " + p.Op + " ip(" + quoteLogQL(p.Val) + ")"
	case "and":
		return p.L.Text() + p.Sep + p.R.Text()
	case "or":
		return p.L.Text() + " or " + p.R.Text()
	case "paren":
		return "(" + p.L.Text() + ")"
	}
	panic("bad pred")
}

// numeric meaning tables: label values whose parse is tabulated, so the oracle re-implements no parser.
var (
	numValues = map[string]float64{"200": 200, "404": 404, "500": 500, "0": 0, "-3": -3, "1.5": 1.5, "1e3": 1000, "42": 42, "3": 3, "007": 7, "+5": 5,
		// zero-padded decimals are decimals (not octal); integers beyond 2^53 compare as the nearest float64
		"0100": 100, "010": 10, "0644": 644, "1700000000000000000": 1.7e18, "9007199254740993": 9007199254740992, "-9223372036854775808": -9223372036854775808,
		// IEEE specials: every ordered comparison with NaN is false, != is true
		"NaN": math.NaN(), "nan": math.NaN(), "+Inf": math.Inf(1), "-Inf": math.Inf(-1)}
	numBad    = []string{"abc", "12abc", "1.2.3", "--1", "ten", "info", "warn", "error", "ERROR", "", "debug", "true", "false", "0x1f", "0b101", "0o17"} // true/false: JSON booleans exposed by | json
	durValues = map[string]time.Duration{"150ms": 150 * time.Millisecond, "2s": 2 * time.Second, "1m30s": 90 * time.Second, "1h": time.Hour, "0s": 0, "1.5s": 1500 * time.Millisecond, "250us": 250 * time.Microsecond, "3m": 3 * time.Minute}
	durBad    = []string{"2d", "1w", "1d12h", "1y" /* units the query language has, Go durations do not */, "bad", "5", "1 s", "s", "1d2", "info", "warn", "error", "ERROR", "", "debug"}
	bytValues = map[string]uint64{"10KB": 10000, "1MiB": 1048576, "512": 512, "1.5KB": 1500, "42B": 42, "2MB": 2000000, "1KiB": 1024, "0": 0}
	bytBad    = []string{"x", "10XB", "KB", "-1KB", "1..5KB", "alice", "bob", "al", "alice2", "a.b*c", "root", "-"}
	ipValues  = []string{"10.0.0.5", "10.0.0.200", "192.168.1.77", "172.16.5.4", "::1", "2001:db8::1", "2001:db8:1::ffff", "8.8.8.8"}
	ipBad     = []string{"notip", "10.0.0", "300.1.1.1", "1.2.3.4.5", "alice", "bob", "al", "alice2", "a.b*c", "root", "-"}
	// literals usable in queries, with their meaning
	numLits = map[string]float64{"200": 200, "404": 404, "0": 0, "1.5": 1.5, "42": 42, "100": 100, "7": 7, "1000": 1000, "3": 3}
	durLits = map[string]time.Duration{"1s": time.Second, "100ms": 100 * time.Millisecond, "2m": 2 * time.Minute, "1h": time.Hour, "90s": 90 * time.Second, "150ms": 150 * time.Millisecond, "0s": 0}
	bytLits = map[string]uint64{"1KB": 1000, "1KiB": 1024, "100B": 100, "2MB": 2000000, "10KB": 10000, "512B": 512, "1MiB": 1048576}
	// ranges and prefixes whose first / last address is one of ipValues (boundary membership)
	ipPats = []string{"10.0.0.5", "10.0.0.1-10.0.0.99", "10.0.0.0/24", "192.168.0.0/16", "::1", "2001:db8::/32", "0.0.0.0/0", "172.16.5.4", "2001:db8::1-2001:db8::ff",
		"10.0.0.5-10.0.0.200", "10.0.0.1-10.0.0.5", "10.0.0.200-10.0.1.0", "8.8.8.8-8.8.8.8", "10.0.0.4/30", "10.0.0.5/32", "10.0.0.200/29", "2001:db8::1-2001:db8:1::ffff", "::1-::1", "2001:db8:1::ffff/128", "192.168.1.77-192.168.1.77",
		// interface-address spellings: host bits set, the network still starts below the written address
		"10.0.0.77/24", "192.168.200.9/16", "2001:db8:ffff::9/32", "172.16.5.200/24", "10.0.0.201/29", "8.8.8.200/8"}
)

func cmpF(op string, a, b float64) bool {
	switch op {
	case "==":
		return a == b
	case "!=":
		return a != b
	case ">":
		return a > b
	case ">=":
		return a >= b
	case "<":
		return a < b
	case "<=":
		return a <= b
	}
	panic("bad cmp op " + op)
}

func cmpU(op string, a, b uint64) bool {
	switch op {
	case "==":
		return a == b
	case "!=":
		return a != b
	case ">":
		return a > b
	case ">=":
		return a >= b
	case "<":
		return a < b
	case "<=":
		return a <= b
	}
	panic("bad cmp op " + op)
}

// Eval applies the predicate. unknown counts label values whose numeric meaning is not tabulated
// (then the case must be discarded by the caller).
func (p *Pred) Eval(e *Ent, unknown *int) bool {
	switch p.Kind {
	case "str":
		if p.Label == "__error__" {
			// only the idiomatic presence tests `__error__=""` / `__error__!=""` are generated
			if e.Err == errEither {
				*unknown++
			}
			return (e.Err != errYes) == (p.Op == "=")
		}
		return oracleLabelMatch(strOp(p.Op), p.Val, e.L[p.Label])
	case "num":
		v, ok := e.L[p.Label]
		if !ok {
			return false
		}
		f, known := numValues[v]
		if !known {
			if !inList(numBad, v) {
				*unknown++
			}
			e.flag()
			return true
		}
		return cmpF(p.Op, f, p.Num)
	case "dur":
		v, ok := e.L[p.Label]
		if !ok {
			return false
		}
		d, known := durValues[v]
		if !known {
			if !inList(durBad, v) {
				*unknown++
			}
			e.flag()
			return true
		}
		return cmpF(p.Op, float64(d), float64(durLits[p.Val]))
	case "bytes":
		v, ok := e.L[p.Label]
		if !ok {
			return false
		}
		b, known := bytValues[v]
		if !known {
			if !inList(bytBad, v) {
				*unknown++
			}
			e.flag()
			return true
		}
		return cmpU(p.Op, b, bytLits[p.Val])
	case "ip":
		v, ok := e.L[p.Label]
		if !ok {
			return false
		}
		if !inList(ipValues, v) {
			if !inList(ipBad, v) {
				*unknown++
			}
			e.flag()
			return true
		}
		set, _ := parseIPSet(p.Val)
		in := set.contains(netip.MustParseAddr(v))
		if p.Op == "==" {
			return in
		}
		return !in
	case "and":
		l := p.L.Eval(e, unknown)
		if !l {
			return false
		}
		return p.R.Eval(e, unknown)
	case "or":
		// LogQL (like Loki) does not evaluate the right side when the left one holds
		if p.L.Eval(e, unknown) {
			return true
		}
		return p.R.Eval(e, unknown)
	case "paren":
		return p.L.Eval(e, unknown)
	}
	panic("bad pred kind")
}

func inList(xs []string, s string) bool {
	for _, x := range xs {
		if x == s {
			return true
		}
	}
	return false
}

func stLabelFilter(p *Pred, unknown *int) Stage {
	return stateless("labelfilter", "| "+p.Text(), func(e *Ent) bool { return p.Eval(e, unknown) })
}

// ---- parser stages

// jsonScalarText is how a top-level JSON scalar is exposed by a bare `| json`.
// ok=false for null (not exposed). composite values are returned as canonical JSON (loose compare).
func jsonFieldText(v any, raw json.RawMessage, viaPath bool) (string, bool, bool) {
	switch t := v.(type) {
	case string:
		return t, true, false
	case bool:
		if t {
			return "true", true, false
		}
		return "false", true, false
	case nil:
		if viaPath {
			return "", true, false
		}
		return "", false, false
	case json.Number:
		return t.String(), true, false
	default:
		return string(raw), true, true
	}
}

// FieldDoc is a flat document the harness wrote itself; Order keeps the key order as written.
type FieldDoc struct {
	Keys []string
	Vals map[string]any // string | json.Number | bool | nil | map/[]any (composite)
}

func stJSONAll(docOf func(line string) (*FieldDoc, bool)) Stage {
	return stateless("json", "| json", func(e *Ent) bool {
		doc, ok := docOf(e.Line)
		if !ok {
			e.flag()
			e.Loose = true
			return true
		}
		for _, k := range doc.Keys {
			_, sk := modelSanitise(k)
			txt, exposed, composite := jsonFieldText(doc.Vals[k], nil, false)
			if !exposed {
				continue
			}
			if composite {
				e.Loose = true
				continue
			}
			e.L[sk] = txt
		}
		return true
	})
}

func stJSONLabels(labels []string, docOf func(line string) (*FieldDoc, bool)) Stage {
	return stateless("json-labels", "| json "+strings.Join(labels, ", "), func(e *Ent) bool {
		doc, ok := docOf(e.Line)
		if !ok {
			e.flag()
			e.Loose = true
			return true
		}
		for _, k := range labels {
			v, has := doc.Vals[k]
			if !has {
				continue
			}
			txt, exposed, composite := jsonFieldText(v, nil, false)
			if !exposed {
				continue
			}
			if composite {
				e.Loose = true
				continue
			}
			e.L[k] = txt
		}
		return true
	})
}

func stLogfmtAll(pairsOf func(line string) ([][2]string, bool)) Stage {
	return stateless("logfmt", "| logfmt", func(e *Ent) bool {
		pairs, ok := pairsOf(e.Line)
		if !ok {
			e.flag()
			e.Loose = true
			return true
		}
		for _, kv := range pairs {
			e.L[kv[0]] = kv[1]
		}
		return true
	})
}

func stLogfmtLabels(labels []string, renames map[string]string, pairsOf func(line string) ([][2]string, bool)) Stage {
	var parts []string
	for _, l := range labels {
		parts = append(parts, l)
	}
	rk := make([]string, 0, len(renames))
	for k := range renames {
		rk = append(rk, k)
	}
	sort.Strings(rk)
	for _, dst := range rk {
		parts = append(parts, dst+"="+quoteLogQL(renames[dst]))
	}
	return stateless("logfmt-labels", "| logfmt "+strings.Join(parts, ", "), func(e *Ent) bool {
		pairs, ok := pairsOf(e.Line)
		if !ok {
			e.flag()
			e.Loose = true
			return true
		}
		for _, kv := range pairs {
			for _, l := range labels {
				if l == kv[0] {
					e.L[l] = kv[1]
				}
			}
			for dst, src := range renames {
				if src == kv[0] {
					e.L[dst] = kv[1]
				}
			}
		}
		return true
	})
}

// stRegexp: named captures of the first match become labels; a non-matching line is kept unchanged.
func stRegexp(src string) Stage {
	re := regexp.MustCompile(src)
	return stateless("regexp", "| regexp "+quoteLogQL(src), func(e *Ent) bool {
		m := re.FindStringSubmatch(e.Line)
		if m == nil {
			return true
		}
		for i, name := range re.SubexpNames() {
			if name != "" {
				e.L[name] = m[i]
			}
		}
		return true
	})
}

// stPattern: fieldsOf returns the captures the harness wrote into the line (nil if the line was not
// written from the pattern's template: then it must only be kept unchanged and labels are loose).
func stPattern(pattern string, fieldsOf func(line string) (map[string]string, bool)) Stage {
	return stateless("pattern", "| pattern "+quoteLogQL(pattern), func(e *Ent) bool {
		f, ok := fieldsOf(e.Line)
		if !ok {
			e.Loose = true
			return true
		}
		for k, v := range f {
			e.L[k] = v
		}
		return true
	})
}

// stUnpack: packedOf returns (_entry, labels) of a packed line the harness wrote.
func stUnpack(packedOf func(line string) (string, map[string]string, bool)) Stage {
	return stateless("unpack", "| unpack", func(e *Ent) bool {
		entry, labels, ok := packedOf(e.Line)
		if !ok {
			e.flag()
			e.Loose = true
			return true
		}
		for k, v := range labels {
			e.L[k] = v
		}
		e.Line = entry
		return true
	})
}

// stDistinct (single label): the first record with each value of the label is kept; a record
// without the label is kept.
func stDistinct(label string) Stage {
	return Stage{Kind: "distinct", Text: "| distinct " + label, mk: func() func(e *Ent) bool {
		seen := map[string]bool{}
		return func(e *Ent) bool {
			v, ok := e.L[label]
			if !ok {
				return true
			}
			if seen[v] {
				return false
			}
			seen[v] = true
			return true
		}
	}}
}

// ---- rewriting stages (C07)

func stRename(pairs [][2]string) Stage { // (dst, src)
	var parts []string
	for _, p := range pairs {
		parts = append(parts, p[0]+"="+p[1])
	}
	return stateless("label_format-rename", "| label_format "+strings.Join(parts, ", "), func(e *Ent) bool {
		for _, p := range pairs {
			if v, ok := e.L[p[1]]; ok {
				e.L[p[0]] = v
				delete(e.L, p[1])
			}
		}
		return true
	})
}

// Tmpl is a template the harness can evaluate itself.
type Tmpl struct {
	Text  string
	Eval  func(e *Ent) (string, bool) // ok=false: the template fails at run time
	Fails bool
}

// quoteTmpl writes a template as a query string literal: double-quoted with escapes, or (for a third of
// the texts that allow it) as a raw back-quoted literal, in which every byte -- a carriage return of a
// multi-line template included -- stands for itself.
func quoteTmpl(text string) string {
	if !strings.Contains(text, "`") && utf8.ValidString(text) && !strings.Contains(text, "\x00") {
		h := uint32(2166136261)
		for i := 0; i < len(text); i++ {
			h = (h ^ uint32(text[i])) * 16777619
		}
		if h%3 == 0 {
			return "`" + text + "`"
		}
	}
	return quoteLogQL(text)
}

func stLabelTemplate(dst string, t Tmpl) Stage {
	return stateless("label_format-template", "| label_format "+dst+"="+quoteTmpl(t.Text), func(e *Ent) bool {
		v, ok := t.Eval(e)
		if !ok {
			e.flag()
			return true
		}
		e.L[dst] = v
		return true
	})
}

// stLabelTemplates: several template assignments in one stage. The destinations are fresh names no
// template refers to, so whether a later template sees an earlier one's result does not matter;
// each template that fails flags the line, the others still set their destination.
func stLabelTemplates(dsts []string, ts []Tmpl) Stage {
	var parts []string
	for i := range dsts {
		parts = append(parts, dsts[i]+"="+quoteTmpl(ts[i].Text))
	}
	return stateless("label_format-template", "| label_format "+strings.Join(parts, ", "), func(e *Ent) bool {
		vals := make([]string, len(ts))
		oks := make([]bool, len(ts))
		for i, t := range ts {
			vals[i], oks[i] = t.Eval(e)
		}
		for i := range ts {
			if !oks[i] {
				e.flag()
				continue
			}
			e.L[dsts[i]] = vals[i]
		}
		return true
	})
}

// stRenameThenTemplate: one stage with renames written first and a template after them. Whether a
// stage is read in written order or renames-first, the template then sees the renamed labels.
func stRenameThenTemplate(pairs [][2]string, dst string, t Tmpl) Stage {
	var parts []string
	for _, p := range pairs {
		parts = append(parts, p[0]+"="+p[1])
	}
	parts = append(parts, dst+"="+quoteTmpl(t.Text))
	return stateless("label_format-mixed", "| label_format "+strings.Join(parts, ", "), func(e *Ent) bool {
		for _, p := range pairs {
			if v, ok := e.L[p[1]]; ok {
				e.L[p[0]] = v
				delete(e.L, p[1])
			}
		}
		v, ok := t.Eval(e)
		if !ok {
			e.flag()
			return true
		}
		e.L[dst] = v
		return true
	})
}

func stLineFormat(t Tmpl) Stage {
	return stateless("line_format", "| line_format "+quoteTmpl(t.Text), func(e *Ent) bool {
		v, ok := t.Eval(e)
		if !ok {
			e.flag()
			return true
		}
		e.Line = v
		return true
	})
}

type nameOrMatcher struct {
	Name string
	M    *selMatcher
}

func renderNM(xs []nameOrMatcher) string {
	var parts []string
	for _, x := range xs {
		if x.M != nil {
			parts = append(parts, x.M.Label+opText(x.M.Op)+quoteLogQL(x.M.Value))
		} else {
			parts = append(parts, x.Name)
		}
	}
	return strings.Join(parts, ", ")
}

func nmSelects(xs []nameOrMatcher, k, v string) bool {
	for _, x := range xs {
		if x.M != nil {
			if x.M.Label == k && oracleLabelMatch(x.M.Op, x.M.Value, v) {
				return true
			}
		} else if x.Name == k {
			return true
		}
	}
	return false
}

func stDrop(xs []nameOrMatcher) Stage {
	return stateless("drop", "| drop "+renderNM(xs), func(e *Ent) bool {
		for k, v := range e.L {
			if nmSelects(xs, k, v) {
				delete(e.L, k)
			}
		}
		if nmSelects(xs, "__error__", "") && e.Err != errNone {
			// dropping the error label by name is allowed to clear the flag; by value matcher it depends on the text
			e.Err = errEither
		}
		return true
	})
}

func stKeep(xs []nameOrMatcher) Stage {
	return stateless("keep", "| keep "+renderNM(xs), func(e *Ent) bool {
		for k, v := range e.L {
			if !nmSelects(xs, k, v) {
				delete(e.L, k)
			}
		}
		if e.Err != errNone {
			// Loki preserves error labels through keep, the statement says "removes all others"
			e.Err = errEither
		}
		return true
	})
}

func stDecolorize(strip func(line string) string) Stage {
	return stateless("decolorize", "| decolorize", func(e *Ent) bool {
		out := strip(e.Line)
		if out == e.Line && (strings.Contains(e.Line, "\x1b") || strings.Contains(e.Line, "\u009b")) {
			// escape bytes that are not one of the harness's colour sequences (random bytes): whether
			// e.g. ESC D counts as a colour sequence is not decided by the statement
			e.LineAny = true
		}
		e.Line = out
		return true
	})
}

func strOp(op string) logql.BinOp {
	switch op {
	case "=":
		return logql.OpEq
	case "!=":
		return logql.OpNotEq
	case "=~":
		return logql.OpRe
	case "!~":
		return logql.OpNotRe
	}
	panic("bad string op " + op)
}

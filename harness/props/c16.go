//go:build verif

package props

import (
	"fmt"
	"math"
	"strconv"
	"strings"
	"time"

	"github.com/tdakkota/docker-logql/internal/zzverif/vk"
)

func init() {
	register("C16", "exploration", 8*time.Minute, 60*time.Minute, runC16)
}

// promDur is the harness's own Prometheus duration grammar: one or more <int><unit> groups, units
// strictly descending (y w d h m s ms), each at most once; "0" alone is zero.
func promDur(s string) (time.Duration, bool) {
	if s == "0" {
		return 0, true
	}
	units := []struct {
		u string
		d time.Duration
	}{{"y", 365 * 24 * time.Hour}, {"w", 7 * 24 * time.Hour}, {"d", 24 * time.Hour}, {"h", time.Hour}, {"m", time.Minute}, {"s", time.Second}, {"ms", time.Millisecond}}
	rest := s
	next := 0
	var total time.Duration
	groups := 0
	for rest != "" {
		i := 0
		for i < len(rest) && rest[i] >= '0' && rest[i] <= '9' {
			i++
		}
		if i == 0 {
			return 0, false
		}
		n, err := strconv.ParseInt(rest[:i], 10, 64)
		if err != nil {
			return 0, false
		}
		rest = rest[i:]
		j := 0
		for j < len(rest) && (rest[j] < '0' || rest[j] > '9') {
			j++
		}
		unit := rest[:j]
		rest = rest[j:]
		found := false
		for k := next; k < len(units); k++ {
			if units[k].u == unit {
				total += time.Duration(n) * units[k].d
				next = k + 1
				found = true
				break
			}
		}
		if !found {
			return 0, false
		}
		groups++
	}
	return total, groups > 0
}

type spelled struct {
	Kind string
	Text string
}

// spellings of one instant (ms precision unless noted)
func spellInstant(r *vk.RNG, t time.Time) []spelled {
	var out []spelled
	ms := t.Nanosecond() / 1e6
	if t.Nanosecond()%1e6 == 0 {
		if ms == 0 {
			out = append(out, spelled{"unix-seconds", strconv.FormatInt(t.Unix(), 10)})
		}
		frac := fmt.Sprintf("%03d", ms)
		out = append(out, spelled{"fractional-3", fmt.Sprintf("%d.%s", t.Unix(), frac)})
		if strings.HasSuffix(frac, "0") {
			out = append(out, spelled{"fractional-short", fmt.Sprintf("%d.%s", t.Unix(), strings.TrimRight(frac, "0")+func() string {
				if strings.TrimRight(frac, "0") == "" {
					return "0"
				}
				return ""
			}())})
		}
	}
	out = append(out, spelled{"unix-nanoseconds", strconv.FormatInt(t.UnixNano(), 10)})
	out = append(out, spelled{"rfc3339-utc", t.UTC().Format(time.RFC3339Nano)})
	zone := time.FixedZone("", vk.Pick(r, []int{3600, -18000, 19800, 45900, -34200}))
	out = append(out, spelled{"rfc3339-offset", t.In(zone).Format(time.RFC3339Nano)})
	if t.Nanosecond() == 0 {
		out = append(out, spelled{"rfc3339-nofraction", t.UTC().Format(time.RFC3339)})
	}
	return out
}

func genInstant(r *vk.RNG) time.Time {
	const lo, hi = 978307200, 7258118400 // 2001-01-01 .. 2200-01-01
	sec := lo + r.I64n(hi-lo)
	var ns int64
	switch r.Intn(4) {
	case 0:
		ns = 0
	case 1:
		ns = int64(r.Intn(1000)) * 1e6
	case 2:
		ns = int64(r.Intn(10)) * 1e8
	default:
		ns = r.I64n(1e9) // full ns precision: only ns / RFC3339 spellings
	}
	return time.Unix(sec, ns)
}

func sp(s string) *string { return &s }

func runC16(r *vk.Run) {
	if Cmd == nil {
		r.Inconclusive("C16 needs the cmd/docker-logql test binary (unexported parse functions)")
		return
	}
	r.SetRule("instants uniformly in 2001..2200 (whole seconds, ms, tenths, full ns) spelled as unix seconds, unix nanoseconds, fractional seconds (<=3 digits) and RFC3339 (UTC, zone offset, without fraction) x all 16 present/absent combinations of --start/--end/--since/--step with now injected " +
		"(end before and after now) -> parseTimeRange/parseStep vs the harness's model of the documented defaults; exhaustive sweep of all 1000 millisecond fractions at several magnitudes; durations from an own Prometheus-duration grammar; malformed catalogue for each flag must be rejected. " +
		"non-trivial = distinct (instant, spelling, flag subset) cases.")
	r.Assume("no wall clock: now is a parameter", "an explicit step must be > 0 and finite; plain seconds may be fractional")

	r.Phase("resolve", r.N(20000, 4000000), func(c *vk.Case) {
		rng := c.Rng
		now := genInstant(rng)
		mask := c.Idx % 16
		hasStart, hasEnd, hasSince, hasStep := mask&1 != 0, mask&2 != 0, mask&4 != 0, mask&8 != 0
		var startT, endT time.Time
		var startS, endS, sinceS, stepS *string
		var startSp, endSp spelled
		since := 6 * time.Hour
		if hasSince {
			txt := vk.Pick(rng, []string{"1h", "30m", "6h", "1d", "2w", "90s", "1h30m", "15m30s", "500ms", "1y", "0", "1d12h", "3h0m"})
			d, ok := promDur(txt)
			if !ok {
				panic("harness: bad since " + txt)
			}
			since = d
			sinceS = sp(txt)
		}
		if hasSince && rng.Chance(1, 4) {
			// "now" as a clock in a zone with daylight saving reads it, the window spanning a switch, --since a
			// whole number of days: a duration is a duration, a day is 24 hours
			if loc, err := time.LoadLocation(vk.Pick(rng, []string{"Europe/Berlin", "America/New_York", "Australia/Sydney"})); err == nil {
				txt := vk.Pick(rng, []string{"1d", "2d", "24h", "1w", "7d", "48h", "3d"})
				d, _ := promDur(txt)
				since, sinceS = d, sp(txt)
				year := 2001 + rng.Intn(150)
				month := vk.Pick(rng, []time.Month{time.March, time.October, time.November, time.April})
				day := time.Date(year, month+1, 1, 1, 0, 0, 0, time.UTC).AddDate(0, 0, -1)
				for day.Weekday() != time.Sunday {
					day = day.AddDate(0, 0, -1)
				}
				if month == time.November || month == time.April {
					day = time.Date(year, month, 1, 7, 0, 0, 0, time.UTC) // first Sunday (US autumn / Australian autumn)
					for day.Weekday() != time.Sunday {
						day = day.AddDate(0, 0, 1)
					}
				}
				now = day.Add(time.Duration(rng.I64n(int64(d)))).In(loc)
				c.Count("nows_in_a_dst_zone_near_a_switch", 1)
			}
		}
		if hasEnd {
			switch rng.Intn(3) {
			case 0:
				endT = now.Add(-time.Duration(rng.I64n(int64(48 * time.Hour))))
			case 1:
				endT = now.Add(time.Duration(rng.I64n(int64(48 * time.Hour)))) // in the future
			default:
				endT = genInstant(rng)
			}
			if rng.Chance(2, 3) {
				endT = endT.Truncate(time.Millisecond)
			}
			endSp = vk.Pick(rng, spellInstant(rng, endT))
			endS = sp(endSp.Text)
		}
		if hasStart {
			startT = genInstant(rng)
			if rng.Chance(2, 3) {
				startT = startT.Truncate(time.Millisecond)
			}
			startSp = vk.Pick(rng, spellInstant(rng, startT))
			startS = sp(startSp.Text)
		}
		// model
		wantEnd := now
		if hasEnd {
			wantEnd = endT
		}
		ref := wantEnd
		if wantEnd.After(now) {
			ref = now
		}
		wantStart := ref.Add(-since)
		if hasStart {
			wantStart = startT
		}
		gotStart, gotEnd, err := Cmd.TimeRange(now, startS, endS, sinceS)
		c.Eval(1)
		det := map[string]any{"now": now.UTC().Format(time.RFC3339Nano), "start": startS, "end": endS, "since": sinceS, "want_start": wantStart.UTC().Format(time.RFC3339Nano), "want_end": wantEnd.UTC().Format(time.RFC3339Nano),
			"got_start": gotStart.UTC().Format(time.RFC3339Nano), "got_end": gotEnd.UTC().Format(time.RFC3339Nano), "start_spelling": startSp.Kind, "end_spelling": endSp.Kind}
		if err != nil {
			det["error"] = err.Error()
			c.Fail("", fmt.Sprintf("valid flags rejected: start=%v end=%v since=%v: %v", strp(startS), strp(endS), strp(sinceS), err), det)
			return
		}
		if !gotEnd.Equal(wantEnd) {
			c.Fail("", fmt.Sprintf("end resolved to %s, expected %s (end=%v [%s])", gotEnd.UTC().Format(time.RFC3339Nano), wantEnd.UTC().Format(time.RFC3339Nano), strp(endS), endSp.Kind), det)
			return
		}
		if !gotStart.Equal(wantStart) {
			c.Fail("", fmt.Sprintf("start resolved to %s, expected %s (start=%v [%s] end=%v since=%v now=%s)", gotStart.UTC().Format(time.RFC3339Nano), wantStart.UTC().Format(time.RFC3339Nano), strp(startS), startSp.Kind, strp(endS), strp(sinceS), now.UTC().Format(time.RFC3339Nano)), det)
			return
		}
		if hasStart {
			c.Seen("spellings", startSp.Kind)
		}
		if hasEnd {
			c.Seen("spellings", endSp.Kind)
			if endT.After(now) {
				c.Count("end_in_future", 1)
			}
		}
		// step
		var wantStep time.Duration
		if hasStep {
			type sv struct {
				txt string
				d   time.Duration
			}
			valid := []sv{{"1", time.Second}, {"15", 15 * time.Second}, {"0.5", 500 * time.Millisecond}, {"1.5", 1500 * time.Millisecond}, {"60", time.Minute}, {"0.001", time.Millisecond},
				{"15s", 15 * time.Second}, {"1m", time.Minute}, {"1h30m", 90 * time.Minute}, {"100ms", 100 * time.Millisecond}, {"1d", 24 * time.Hour}, {"1w", 7 * 24 * time.Hour}, {"2h", 2 * time.Hour}, {"1m30s", 90 * time.Second}, {"3600", time.Hour},
				// plain seconds below a millisecond / with sub-millisecond digits: honoured as written
				// (compared within 1 ns: the product with 1e9 need not be exact)
				{"0.0004", 400 * time.Microsecond}, {"0.00025", 250 * time.Microsecond}, {"2.0004", 2000400 * time.Microsecond}, {"0.0125", 12500 * time.Microsecond},
				{"1.2345678", 1234567800 * time.Nanosecond}, {"0.000001", time.Microsecond}, {"1.001", 1001 * time.Millisecond}}
			v := vk.Pick(rng, valid)
			stepS = sp(v.txt)
			wantStep = v.d
		} else {
			secs := math.Floor(wantEnd.Sub(wantStart).Seconds() / 250)
			if secs < 1 {
				secs = 1
			}
			wantStep = time.Duration(secs) * time.Second
		}
		gotStep, err := Cmd.Step(stepS, gotStart, gotEnd)
		c.Eval(1)
		det["step"], det["want_step"], det["got_step"] = stepS, wantStep.String(), gotStep.String()
		if err != nil {
			c.Fail("", fmt.Sprintf("valid step %v rejected: %v", strp(stepS), err), det)
			return
		}
		if d := gotStep - wantStep; d < -1 || d > 1 || (!strings.Contains(strp(stepS), ".") && d != 0) {
			c.Fail("", fmt.Sprintf("step resolved to %s, expected %s (step=%v, range %s)", gotStep, wantStep, strp(stepS), wantEnd.Sub(wantStart)), det)
			return
		}
		c.Seen("flag_subsets", fmt.Sprintf("%04b", mask))
		c.Count("instants", 1)
		c.Nontrivial(fmt.Sprintf("%d", c.Idx))
		if c.Idx < 4 {
			c.Sample("resolve", det)
		}
	})

	// all spellings of the same instant agree; all 1000 ms fractions at several magnitudes
	r.Phase("spellings", r.N(4000, 1000000), func(c *vk.Case) {
		rng := c.Rng
		t := genInstant(rng)
		if c.Idx%2 == 0 {
			t = t.Truncate(time.Millisecond)
		}
		def := time.Unix(1, 0)
		for _, s := range spellInstant(rng, t) {
			got, err := Cmd.Timestamp(s.Text, def)
			c.Eval(1)
			if err != nil || !got.Equal(t) {
				c.Fail("", fmt.Sprintf("%s spelling %q of %s resolved to %s (err=%v)", s.Kind, s.Text, t.UTC().Format(time.RFC3339Nano), got.UTC().Format(time.RFC3339Nano), err), map[string]any{"spelling": s, "instant_ns": t.UnixNano()})
				return
			}
			c.Seen("spellings", s.Kind)
			c.Count("spellings_checked", 1)
		}
		c.Nontrivial(fmt.Sprintf("sp%d", c.Idx))
	})
	secsBases := []int64{978307200, 1000000000, 1700000000, 2147483647, 4102444800, 7258118399}
	r.Phase("millis", len(secsBases), func(c *vk.Case) {
		base := secsBases[c.Idx]
		for ms := 0; ms < 1000; ms++ {
			for _, txt := range []string{fmt.Sprintf("%d.%03d", base, ms)} {
				want := time.Unix(base, int64(ms)*1e6)
				got, err := Cmd.Timestamp(txt, time.Unix(1, 0))
				c.Eval(1)
				if err != nil || !got.Equal(want) {
					c.Fail("", fmt.Sprintf("fractional seconds %q resolved to %d ns, expected %d ns (err=%v)", txt, got.UnixNano(), want.UnixNano(), err), map[string]any{"text": txt})
					return
				}
				c.Count("millisecond_values", 1)
			}
		}
		// more digits than milliseconds: the text still denotes base + fraction; whatever resolution the tool
		// keeps (it works in milliseconds), the instant it resolves to lies within a millisecond of that one --
		// also when the fraction rounds up into the next second
		for _, frac := range []string{"9995", "9996", "99999", "999999999", "9994", "99949", "4995", "0004", "0005", "0009", "12345", "123456789", "000000001", "5000", "99951", "999500001"} {
			txt := fmt.Sprintf("%d.%s", base, frac)
			fn, _ := strconv.ParseInt((frac + "000000000")[:9], 10, 64)
			exact := time.Unix(base, fn)
			got, err := Cmd.Timestamp(txt, time.Unix(1, 0))
			c.Eval(1)
			if d := got.Sub(exact); err != nil || d > time.Millisecond+2*time.Microsecond || d < -(time.Millisecond+2*time.Microsecond) {
				c.Fail("", fmt.Sprintf("fractional seconds %q resolved to %s, which is not within a millisecond of the instant written, %s (err=%v)", txt, got.UTC().Format(time.RFC3339Nano), exact.UTC().Format(time.RFC3339Nano), err), map[string]any{"text": txt})
				return
			}
			c.Count("long_fraction_values", 1)
		}
		c.Nontrivial(fmt.Sprintf("ms%d", c.Idx))
	})

	// malformed values must be rejected, not replaced by a default
	r.Phase("malformed", 1, func(c *vk.Case) {
		now := time.Unix(1700000000, 0)
		badTimes := []string{"now", "9999999999999999999", "9223372036854775808", "18446744073709551615", "abc", "12:30", "2024-13-01T00:00:00Z", "2024-01-01", "2024-01-01 00:00:00", "1e9", "1700000000.5.5", ".", "Inf", "0x10", "17000000000000000000000", "yesterday", "1700000000s", " 1700000000", "1700000000 "}
		for _, b := range badTimes {
			if _, _, err := Cmd.TimeRange(now, sp(b), nil, nil); err == nil {
				c.Fail("", fmt.Sprintf("malformed --start %q accepted", b), map[string]any{"flag": "start", "value": b})
			}
			if _, _, err := Cmd.TimeRange(now, nil, sp(b), nil); err == nil {
				c.Fail("", fmt.Sprintf("malformed --end %q accepted", b), map[string]any{"flag": "end", "value": b})
			}
			c.Eval(2)
			c.Count("malformed_rejected_checks", 2)
		}
		badDur := []string{"", "abc", "1.5h", "1h1h", "1m1h", "-5m", "5", "h", "1h ", " 1h", "1H", "1hour", "5mm", "1s500ms1"}
		for _, b := range badDur {
			if _, _, err := Cmd.TimeRange(now, nil, nil, sp(b)); err == nil {
				c.Fail("", fmt.Sprintf("malformed --since %q accepted", b), map[string]any{"flag": "since", "value": b})
			}
			c.Eval(1)
			c.Count("malformed_rejected_checks", 1)
		}
		// a malformed value is rejected whatever the other flags are: an explicit --start does not make a
		// malformed --since harmless, nor the other way round
		okStart, okEnd, okSince := []*string{nil, sp("1699990000"), sp("2023-11-14T20:00:00Z")}, []*string{nil, sp("1699999000"), sp("1699999000.5")}, []*string{nil, sp("2h"), sp("30m")}
		for _, a := range okStart {
			for _, e := range okEnd {
				for _, si := range okSince {
					for _, b := range badTimes {
						if _, _, err := Cmd.TimeRange(now, sp(b), e, si); err == nil {
							c.Fail("", fmt.Sprintf("malformed --start %q accepted next to end=%v since=%v", b, strp(e), strp(si)), map[string]any{"flag": "start", "value": b, "end": e, "since": si})
						}
						if _, _, err := Cmd.TimeRange(now, a, sp(b), si); err == nil {
							c.Fail("", fmt.Sprintf("malformed --end %q accepted next to start=%v since=%v", b, strp(a), strp(si)), map[string]any{"flag": "end", "value": b, "start": a, "since": si})
						}
						c.Eval(2)
						c.Count("malformed_rejected_checks", 2)
					}
				}
				for _, b := range badDur {
					if _, _, err := Cmd.TimeRange(now, a, e, sp(b)); err == nil {
						c.Fail("", fmt.Sprintf("malformed --since %q accepted next to start=%v end=%v", b, strp(a), strp(e)), map[string]any{"flag": "since", "value": b, "start": a, "end": e})
					}
					c.Eval(1)
					c.Count("malformed_rejected_checks", 1)
				}
			}
		}
		start, end := now.Add(-time.Hour), now
		badStep := []string{"", "abc", "1.5h", "1h1h", "1m1h", "inf", "Inf", "+Inf", "-Inf", "NaN", "nan", "0", "0.0", "-5", "-0.5", "0s", "0ms", "-1s", "1e400", "h", "1 s", "0x", "--1", "1..5"}
		for _, b := range badStep {
			d, err := Cmd.Step(sp(b), start, end)
			c.Eval(1)
			c.Count("malformed_rejected_checks", 1)
			if err == nil {
				key := ""
				c.Fail(key, fmt.Sprintf("invalid --step %q accepted as %s (a step must be a strictly positive, finite duration)", b, d), map[string]any{"flag": "step", "value": b, "resolved": d.String()})
			}
		}
		// positive as written but not representable as a positive nanosecond count: rejected, or resolved
		// to something strictly positive -- never to 0 or a negative step
		for _, b := range []string{"1e-10", "0.0000000001", "0.0000000005", "1e-300", "1e10", "9e18", "9223372036.854775808", "1e308"} {
			d, err := Cmd.Step(sp(b), start, end)
			c.Eval(1)
			c.Count("malformed_rejected_checks", 1)
			if err == nil && d <= 0 {
				c.Fail("", fmt.Sprintf("--step %q accepted as %s (a step must be strictly positive)", b, d), map[string]any{"flag": "step", "value": b, "resolved": d.String()})
			}
		}
		// what one flag accepts is not thereby a value of another: plain seconds are a step, not a --since; a
		// spelling that has just been resolved for --step is still rejected for --since (and the values that
		// both accept still mean the same afterwards)
		for _, b := range []string{"90", "1.5", "0.5", "15", "3600", "2", "0.25"} {
			if d, err := Cmd.Step(sp(b), start, end); err != nil || d <= 0 {
				c.Fail("", fmt.Sprintf("valid --step %q rejected or not positive: %v %v", b, d, err), map[string]any{"flag": "step", "value": b})
			}
			if s1, e1, err := Cmd.TimeRange(now, nil, nil, sp(b)); err == nil {
				c.Fail("", fmt.Sprintf("malformed --since %q accepted (range %s) after the same spelling had been given as --step", b, e1.Sub(s1)), map[string]any{"flag": "since", "value": b})
			}
			c.Eval(2)
			c.Count("malformed_rejected_checks", 1)
			c.Count("cross_flag_spellings", 1)
		}
		for _, b := range []string{"90s", "2m", "1h30m"} {
			d1, err1 := Cmd.Step(sp(b), start, end)
			s1, e1, err2 := Cmd.TimeRange(now, nil, nil, sp(b))
			d2, err3 := Cmd.Step(sp(b), start, end)
			if err1 != nil || err2 != nil || err3 != nil || d1 != d2 || e1.Sub(s1) != d1 {
				c.Fail("", fmt.Sprintf("duration %q: step %v (%v), since range %v (%v), step again %v (%v)", b, d1, err1, e1.Sub(s1), err2, d2, err3), map[string]any{"value": b})
			}
			c.Eval(3)
			c.Count("cross_flag_spellings", 1)
		}
		c.R.SetExtra("values_passed_through_real_flag_objects", CmdViaFlags.Load())
		c.Nontrivial("malformed")
		c.Sample("malformed", map[string]any{"times": badTimes, "durations": badDur, "steps": badStep})
	})
	// end to end: flags of the built plugin -> what the fake daemon is asked for (no wall clock: --end always explicit and in the past)
	r.Phase("e2e", r.N(30, 2500), func(c *vk.Case) {
		rng := c.Rng
		inv := []CSpec{{ID: "id0", Name: "/c0", Image: "img", State: "running"}}
		for j := 0; j < 8; j++ {
			inv[0].Frames = append(inv[0].Frames, Frame{Type: 1, TS: int64(1700000000+j) * 1e9, Body: fmt.Sprintf("line-%d", j)})
		}
		d, err := startFakeDaemon(inv, false)
		if err != nil {
			c.R.Inconclusive("fake daemon: " + err.Error())
			return
		}
		defer d.Close()
		endT := time.Unix(1600000000+rng.I64n(100000000), int64(rng.Intn(1000))*1e6)
		if rng.Bool() {
			endT = endT.Truncate(time.Second) // whole seconds: until must then be exactly that second
		}
		endSp := vk.Pick(rng, spellInstant(rng, endT))
		args := []string{`{container="c0"}`, "--end", endSp.Text, "--color=false"}
		wantStart := endT.Add(-6 * time.Hour)
		mode := "default-since"
		switch rng.Intn(3) {
		case 0:
			st := endT.Add(-time.Duration(rng.I64n(int64(100 * time.Hour)))).Truncate(time.Millisecond)
			ssp := vk.Pick(rng, spellInstant(rng, st))
			args = append(args, "--start", ssp.Text)
			wantStart = st
			mode = "explicit-start/" + ssp.Kind
		case 1:
			txt := vk.Pick(rng, []string{"1h", "30m", "2d", "90s", "1h30m"})
			sd, _ := promDur(txt)
			args = append(args, "--since", txt)
			wantStart = endT.Add(-sd)
			mode = "since"
		}
		limit := -1
		if rng.Bool() {
			limit = rng.Range(1, 10)
			args = append(args, "--limit", fmt.Sprint(limit))
		}
		badStep, hasBadStep := "", false
		if rng.Chance(1, 4) {
			hasBadStep = true
			badStep = vk.Pick(rng, []string{"0", "-5", "inf", "NaN", "0s", "abc", "1h1h", "", ""})
			args = append(args, "--step", badStep)
		} else if rng.Bool() {
			args = append(args, "--step", vk.Pick(rng, []string{"15", "1m", "0.5", "2h"}))
		}
		pr, err := runPlugin(d, 60*time.Second, args...)
		c.Eval(1)
		if err != nil {
			c.R.Inconclusive("cannot run plugin binary: " + err.Error())
			return
		}
		det := map[string]any{"args": args, "stdout": string(pr.Stdout), "stderr": string(pr.Stderr), "exit": pr.Exit, "requests": d.requests(), "mode": mode}
		if pr.TimedOut {
			c.Fail("", fmt.Sprintf("plugin did not finish within 60s for %v", args), det)
			return
		}
		if hasBadStep {
			if pr.Exit == 0 {
				c.Fail("", fmt.Sprintf("plugin accepted --step %q", badStep), det)
			}
			c.Count("e2e_bad_step_rejected", 1)
			return
		}
		if pr.Exit != 0 {
			c.Fail("", fmt.Sprintf("plugin failed for valid flags %v: %s", args, trunc(string(pr.Stderr), 300)), det)
			return
		}
		reqs := d.requests()
		if len(reqs) != 1 {
			c.Fail("", fmt.Sprintf("expected one logs request, daemon saw %d", len(reqs)), det)
			return
		}
		ws, wul, wuh := floorDivSec(wantStart.UnixNano()), floorDivSec(endT.UnixNano()), ceilDivSec(endT.UnixNano())
		if reqs[0].Since != fmt.Sprint(ws) {
			c.Fail("", fmt.Sprintf("[%s] daemon asked since=%s, flags resolve start to %s (=%d s)", mode, reqs[0].Since, wantStart.UTC().Format(time.RFC3339Nano), ws), det)
			return
		}
		if reqs[0].Until != fmt.Sprint(wul) && reqs[0].Until != fmt.Sprint(wuh) {
			c.Fail("", fmt.Sprintf("[%s/%s] daemon asked until=%s, --end %s is %d..%d s", mode, endSp.Kind, reqs[0].Until, endSp.Text, wul, wuh), det)
			return
		}
		lines := strings.Count(string(pr.Stdout), "\n")
		wantLines := 8
		if limit > 0 && limit < 8 {
			wantLines = limit
		}
		if lines != wantLines {
			c.Fail("", fmt.Sprintf("--limit %d: %d lines printed, expected %d", limit, lines, wantLines), det)
			return
		}
		c.Count("e2e_runs", 1)
		c.Seen("e2e_modes", mode)
		c.Nontrivial(fmt.Sprintf("e2e%d", c.Idx))
	})
	r.Require("e2e_runs", 12)
	r.Require("distinct:flag_subsets", 16)
	r.Require("distinct:spellings", 6)
	r.Require("millisecond_values", 6000)
	r.Require("malformed_rejected_checks", 60)
	r.Require("end_in_future", 500)
}

func strp(s *string) string {
	if s == nil {
		return "<absent>"
	}
	return strconv.Quote(*s)
}

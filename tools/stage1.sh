#!/bin/bash
# stage 1: confirm a seed inside its own worktree
ID=$1; W=${WT:-/tmp/wt7}/$ID; S=$W/_seed; DEST=$(/verif/tools/demodir.sh $W)
export GOFLAGS=-mod=mod GOPROXY=off GOSUMDB=off GOTOOLCHAIN=local
cd $W || exit 2
git checkout -q -- . ; git clean -fdq -e _seed >/dev/null
R="$ID dir=$DEST lines=$(grep -c '^[+-][^+-]' $S/patch.diff)"
git apply $S/patch.diff || { echo "$R PATCH-DOES-NOT-APPLY"; exit 0; }
go build ./... >/dev/null 2>&1 || { echo "$R BUILD-FAILS"; git checkout -q -- .; exit 0; }
if go test -vet=off -count=1 ./... > /tmp/s1.$ID.suite 2>&1; then R="$R suite=PASS"; else R="$R suite=FAIL"; fi
cp $S/*_test.go $DEST/
RUNRE=$(grep -ho 'func Test[A-Za-z0-9_]*' $S/*_test.go | sed 's/func //' | paste -sd'|')
if timeout 300 go test -vet=off -count=1 -run "^($RUNRE)\$" ./$DEST/ > /tmp/s1.$ID.demo1 2>&1; then R="$R demo+change=PASS(!)"; else R="$R demo+change=FAIL(ok)"; fi
git checkout -q -- .
if timeout 300 go test -vet=off -count=1 -run "^($RUNRE)\$" ./$DEST/ > /tmp/s1.$ID.demo2 2>&1; then R="$R demo-change=PASS(ok)"; else R="$R demo-change=FAIL(!)"; fi
for f in $(cd $S; ls *_test.go); do rm -f $DEST/$f; done
echo "$R"

#!/usr/bin/env python3
"""Generates /verif/MANIFEST.json from the table below. A property is claimed as soon as its monitor
exists (harness/props/cNN.go registers it); everything else is listed under not_applicable with the reason."""
import json, os, re

V = "/verif"
BASELINE = "cd /repo && GOFLAGS=-mod=mod GOPROXY=off GOSUMDB=off GOTOOLCHAIN=local go test -mod=mod -vet=off -count=1 -timeout 25m ./..."

# id: (level, technique, level text, level note, design ref)
T = {
 "C01": ("exploration", "reference-interpreter monitor over Engine.Eval on generated records x queries x storage-capability configurations",
         "Every generated (records, query) pair is evaluated by the real engine over a monitored in-memory storage under several capability configurations and compared, as a set of uniquely identified records, with an independent stage-by-stage reference interpreter; configurations are also compared with each other. Held-on-K-executions evidence, not proof.",
         "trusted: Go regexp, net/netip, strconv; the harness's reference interpreter; storage returns the requested interval in time order", "DESIGN.md §4 C01"),
 "C02": ("exploration", "ledger monitor on a fake Docker API client vs selector model; E2E through the built plugin binary against a fake daemon",
         "The fake client records which containers were opened and with which since/until; an own model of label derivation and of the four matcher operators decides the expected set and every returned line is traced back to its container by a unique id.",
         "trusted: the fake Docker client, Go regexp; keys colliding after sanitising are excluded here (C18/C20 cover them)", "DESIGN.md §4 C02"),
 "C03": ("fault_enumeration", "encode/fragment/decode round-trip monitor with exhaustive truncation and corrupt-frame positions",
         "The harness's own frame encoder is the specification; each stream is decoded by the real ParseLog under many read fragmentations, cut at EVERY byte offset and with a daemon-error / corrupt-timestamp / no-space frame at EVERY frame index; the error must also be sticky across further Next calls.",
         "trusted: harness encoder; time.Parse for RFC3339Nano", "DESIGN.md §4 C03"),
 "C04": ("exploration", "exactly-once and ordering checker over gated merges, all completion orders for N<=5, under the Go race detector",
         "ContainerLogs calls of the fake client block on gates and are released in every permutation (exhaustively for N<=5); the drained merged stream is checked offline for conservation (unique ids), global time order, per-container order and independence of the completion order; the race detector watches all runs.",
         "trusted: the fake client and its gate controller; per-container logs are time-ordered (precondition of the statement)", "DESIGN.md §4 C04"),
 "C05": ("exploration", "generated query ASTs rendered in random layouts and compared with the parser's AST; corruption catalogue must be rejected",
         "The generator owns an AST, renders it to text in random layouts (whitespace, comments, quoting, redundant parentheses, both placements of range and grouping) and to the expected logql tree; Parse must return exactly that tree for every layout, and a catalogue of grammar-violating corruptions applied at every applicable site must be rejected.",
         "trusted: harness generator/renderer; humanize.ParseBytes and Prometheus duration parsing for literal values", "DESIGN.md §4 C05"),
 "C06": ("exploration", "write-then-parse round-trip monitor per parser stage, malformed corpus with cut at every byte",
         "Lines are written from field maps by the harness's own encoders (encoding/json, logfmt, packed entries, delimiter-joined), so the field map is the expected label set after the stage; malformed lines (every truncation point of a corpus) must be kept, unchanged and flagged.",
         "trusted: encoding/json, harness logfmt writer; only scalar fields asserted exactly", "DESIGN.md §4 C06"),
 "C07": ("exploration", "per-stage expected-effect monitor through Engine.Eval for label_format/line_format/drop/keep/decolorize",
         "Each generated rewriting stage carries a closure computing the expected (line, labels); the engine's output is compared for every record; failing templates must keep the line and flag __error__.",
         "trusted: harness template evaluator for the template family it generates", "DESIGN.md §4 C07"),
 "C08": ("exploration", "partition + limit checker over Engine.Eval results",
         "Checks on every result: no two streams share a label set, each entry sits in the stream of its expected final labels, per-stream time order, total count, and for every limit value the returned set is exactly the first min(L,N) matching records.",
         "trusted: C01/C07 reference interpreter for expected final labels; unique timestamps make 'first L' unambiguous", "DESIGN.md §4 C08"),
 "C09": ("exploration", "window reference model + grid-independence metamorphic monitor over range aggregations",
         "Each (samples, function, range, offset, grid) is evaluated by the engine and compared point by point with a window model; independently of the model, range queries with different starts/steps and the instant query must agree at shared evaluation times.",
         "trusted: harness window model; float comparisons within 1e-9 where the computation is inexact", "DESIGN.md §4 C09"),
 "C10": ("exploration", "series-identity, conservation and repetition monitor (samples map-iteration orders by repetition)",
         "Adversarial label sets (prefixes/concatenations of one another) are aggregated; results must contain no duplicate label set, the expected series, conserved per-step totals, and be identical over repeated evaluations that sample the runtime's map iteration orders.",
         "trusted: map equality as label-set identity; repetition only samples map orders", "DESIGN.md §4 C10"),
 "C11": ("exploration", "group-by reference model over vector aggregations incl. nesting to depth three",
         "Inner vectors with arbitrary label sets/values are produced through the engine itself; every aggregator x by/without x label list x k x nesting is compared per step with a group-by model.",
         "trusted: harness group-by model; distinct values make top-k unambiguous", "DESIGN.md §4 C11"),
 "C12": ("exploration", "pointwise reference model for the 15 binary operators over vector/scalar and vector/vector operands",
         "All operators x operand shapes at every step of range queries are compared with a pointwise model (label-set matching, literal side, x/0 and x%0 = NaN, comparison = 1 exactly where it holds, set operators by label set).",
         "trusted: harness model; the code's convention for a false comparison (0 or dropped) is accepted either way", "DESIGN.md §4 C12"),
 "C13": ("exploration", "conventional precedence-climbing evaluator vs Engine.Eval on operator chains (all chains up to 5 operands in thorough)",
         "Chains of vector(p) operands joined by the 15 operators, with and without parentheses, are evaluated by the engine and by the harness's own conventional evaluator; non-trivial = at least two parenthesisations differ.",
         "trusted: harness evaluator; known finding F13 matched only by its exact defect model", "DESIGN.md §4 C13"),
 "C14": ("fault_enumeration", "fault-injection ledger monitor: fired fault => error, opened == closed, over fault sites x query shapes x completion orders, under -race",
         "Every single fault (list error, open error per container x completion order, read error / truncation at every byte, corrupt frame at every index, storage iterator faults) is injected into every query shape; if the fake recorded that the fault fired, Eval must return an error; in all runs every opened reader must be closed when Eval returns.",
         "trusted: fakes and their ledger (mutex-protected, run under the race detector)", "DESIGN.md §4 C14"),
 "C15": ("exploration", "output-consumer monitor over renderResult for generated results x 8 option combinations",
         "renderResult output is consumed against the multiset of expected per-entry records in timestamp-consistent order; colour-off output must be escape-free, colour-on names wrapped consistently; up to 40 containers.",
         "trusted: harness expected-record builder; palette membership only (which colour is not asserted)", "DESIGN.md §4 C15"),
 "C16": ("exploration", "resolution model with injected now over parseTimeRange/parseStep for instants x spellings x flag subsets + malformed catalogue",
         "An own model of the defaulting rules with injected now decides (start,end,step) for all 16 flag subsets; four spellings of one instant must resolve identically; malformed values must be rejected.",
         "trusted: harness Prometheus-duration grammar; now is injected (no wall clock)", "DESIGN.md §4 C16"),
 "C17": ("exploration", "recover/fatal-exit/watchdog monitor over grammar-derived, mutated and random queries x hostile log contents in child processes",
         "Engine.Eval runs on generated/mutated/random queries over hostile data inside child processes that log each case before running it; a recovered panic, a fatal runtime exit or a repeated watchdog hit is a violation.",
         "trusted: watchdog budgets (a hit is re-run with 10x budget; only a repeat counts)", "DESIGN.md §4 C17"),
 "C18": ("exploration", "run-to-run equality over all completion orders x repetitions, under the Go race detector",
         "The same inventory and query are evaluated under every completion order (N<=5) and repeatedly; canonical results and rendered bytes must be identical; any race-detector report is a violation.",
         "trusted: canonicalisation (order-insensitive where the statement allows)", "DESIGN.md §4 C18"),
 "C19": ("exploration", "metamorphic set-algebra monitor (engine against itself)",
         "Sub-multiset, negation partition, commutativity, idempotence, and/or = intersection/union and neutral filter relations are checked between engine results over random pipelines and data with unique timestamps.",
         "no reference model; relations only", "DESIGN.md §4 C19"),
 "C20": ("exploration", "exhaustive key enumeration through KeyToLabel + selection round trip through a fake Docker client and bare | json",
         "All keys up to length 4 (quick) / 5 (thorough) over a 12-symbol alphabet are checked for validity, identity on valid names, idempotence and rune-wise replacement; Docker label keys and JSON keys are then addressed by the harness-sanitised name through the real engine.",
         "trusted: harness sanitiser model; leading digit replaced or prefixed both accepted", "DESIGN.md §4 C20"),
}

NOT_BUILT_REASON = "runtime monitor designed (DESIGN.md §4) but not built yet at this commit; work in progress, no claim made"

def built(pid):
    p = os.path.join(V, "harness", "props", pid.lower() + ".go")
    return os.path.exists(p) and 'register("%s"' % pid in open(p).read()

checks, na = [], []
for pid in sorted(T):
    level, tech, text, note, ref = T[pid]
    if not built(pid):
        na.append({"property_id": pid, "reason": NOT_BUILT_REASON})
        continue
    checks.append({
        "property_id": pid,
        "quick_cmd": "./check %s quick" % pid,
        "thorough_cmd": "./check %s thorough" % pid,
        "evidence_file": "/verif/evidence/%s.json" % pid,
        "replay_cmd_template": "./check %s --replay {path}" % pid,
        "engine": "vharness",
        "level_claimed": {"category": level, "text": text, "design_ref": ref},
        "level_note": note,
        "technique": "runtime monitoring: " + tech,
    })

m = {
 "version": 1,
 "setup_cmd": "cd /verif && ./setup.sh",
 "hooks": {
   "guard": "verif",
   "enable": "go build/test -tags verif -overlay /verif/build/overlay.json -modfile=/verif/build/go.mod (harness sources are overlaid as new files under internal/zzverif and cmd/docker-logql; no source file of /repo is modified)",
   "baseline_off_cmd": BASELINE,
   "source_commits": [],
   "add_only": True,
 },
 "engines": [
   {"name": "vharness", "path": "/verif/harness", "serves_properties": sorted(p["property_id"] for p in checks),
    "kind_free_text": "Go runtime-monitoring harness compiled inside /repo's module by overlay: generators, reference models, fakes (in-memory storage, fake Docker client/daemon with gates and fault plans), one monitor per property; -race builds for the concurrent properties"},
 ],
 "checks": checks,
 "notes": "Every check rebuilds from /repo's working tree. Exit 0 held / 1 VIOLATION / 3 INCONCLUSIVE. VERIF_SEED selects the case lists. Known findings: /verif/known_findings.json.",
 "not_applicable": na,
}
json.dump(m, open(os.path.join(V, "MANIFEST.json"), "w"), indent=1)
print("claimed:", [c["property_id"] for c in checks])
print("not claimed:", [n["property_id"] for n in na])

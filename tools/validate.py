#!/usr/bin/env python3
"""validate MANIFEST.json and evidence/*.json against the schemas in /root/.vp (run with python3-vt)."""
import json, sys, glob
import jsonschema
ok = True
def check(path, schema):
    global ok
    try:
        jsonschema.validate(json.load(open(path)), json.load(open(schema)))
        print("ok   ", path)
    except Exception as e:
        ok = False
        print("FAIL ", path, str(e).splitlines()[0])
check("/verif/MANIFEST.json", "/root/.vp/MANIFEST.schema.json")
for p in sorted(glob.glob("/verif/evidence/*.json")):
    check(p, "/root/.vp/EVIDENCE.schema.json")
sys.exit(0 if ok else 1)

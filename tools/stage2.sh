#!/bin/bash
# stage 2: apply a seed to /repo, run ./check <prop> quick (+EXTRA), revert
ID=$1; PROP=${ID:0:3}; S=${WT:-/tmp/wt7}/$ID/_seed
cd /repo; git diff --quiet || { echo "/repo dirty"; exit 2; }
git apply $S/patch.diff || { echo "$ID PATCH DOES NOT APPLY TO /repo"; exit 0; }
cd /verif
for id in $PROP ${EXTRA:-}; do
  ./check $id quick > /tmp/s2.$ID.$id 2>&1; rc=$?
  echo "$ID check $id: rc=$rc violations=$(grep -c '^VIOLATION' /tmp/s2.$ID.$id) $(grep -m1 'what:' /tmp/s2.$ID.$id | cut -c1-230) $(grep -m1 INCONCLUSIVE /tmp/s2.$ID.$id)"
done
git -C /repo checkout -- . && git -C /repo clean -fdq

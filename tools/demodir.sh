#!/bin/bash
# prints the directory (relative to repo) for the demo of worktree $1
W=$1; S=$W/_seed
pkg=$(grep -m1 -h '^package ' $S/*_test.go | awk '{print $2}' | sed 's/_test$//')
for d in $(grep -oh '\(internal\|cmd\)/[A-Za-z0-9_/.-]*' $S/NOTES.md | sed 's#/zz_.*##; s#/$##; s#\.$##' | awk '!s[$0]++'); do
  [ -d $W/$d ] || continue
  p=$(grep -m1 -h '^package ' $(ls $W/$d/*.go | grep -v _test | head -1) 2>/dev/null | awk '{print $2}')
  if [ "$p" = "$pkg" ]; then echo $d; exit 0; fi
done
echo UNKNOWN

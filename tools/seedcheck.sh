#!/bin/bash
# tools/seedcheck.sh <ID> <demo-dest-dir-relative-to-repo> [seed-subdir]
# 1. confirms the sub-agent's claims in its own scratch worktree /tmp/wt/<ID>
# 2. applies the patch to /repo, runs ./check <ID> quick (and other ids given in $EXTRA), reverts
# env: WT worktree root, PROP property id to check (default = ID), EXTRA further ids, TIER
set -u
ID=$1; DEST=$2; SD=${3:-_seed}
W=${WT:-/tmp/wt}/$ID; S=$W/$SD
export GOFLAGS=-mod=mod GOPROXY=off GOSUMDB=off GOTOOLCHAIN=local
cd $W || exit 2
git checkout -q -- . ; git clean -fdq -e _seed -e '_seed*' >/dev/null
echo "== patch:"; grep -c '^[+-][^+-]' $S/patch.diff
git apply $S/patch.diff || { echo "PATCH DOES NOT APPLY"; exit 2; }
go build ./... || { echo "BUILD FAILS"; git checkout -q -- .; exit 2; }
if go test -vet=off -count=1 ./... > /tmp/seed.$ID.suite 2>&1; then echo "suite with change: PASS"; else echo "suite with change: FAIL"; grep -v '^ok\|no test files' /tmp/seed.$ID.suite | head; fi
for f in $S/*_test.go; do [ -e "$f" ] && cp $f $DEST/; done
DEMOS=$(cd $S; ls *_test.go 2>/dev/null)
RUNRE=$(grep -ho 'func Test[A-Za-z0-9_]*' $S/*_test.go | sed 's/func //' | paste -sd'|')
if go test -vet=off -count=1 -run "^($RUNRE)\$" ./$DEST/ > /tmp/seed.$ID.demo1 2>&1; then echo "demo with change: PASS (unexpected)"; else echo "demo with change: FAIL (expected)"; fi
git checkout -q -- .
if go test -vet=off -count=1 -run "^($RUNRE)\$" ./$DEST/ > /tmp/seed.$ID.demo2 2>&1; then echo "demo without change: PASS (expected)"; else echo "demo without change: FAIL (unexpected)"; tail -5 /tmp/seed.$ID.demo2; fi
for f in $DEMOS; do rm -f $DEST/$f; done
# now /repo
cd /repo; if ! git diff --quiet; then echo "/repo dirty"; exit 2; fi
git apply $S/patch.diff || { echo "PATCH DOES NOT APPLY TO /repo"; exit 2; }
cd /verif
for id in ${PROP:-$ID} ${EXTRA:-}; do
  ./check $id ${TIER:-quick} > /tmp/seed.$ID.check.$id 2>&1; rc=$?
  echo "check $id ${TIER:-quick}: rc=$rc violations_printed=$(grep -c '^VIOLATION' /tmp/seed.$ID.check.$id)"
  grep -m2 'what:' /tmp/seed.$ID.check.$id | cut -c1-300
  grep INCONCLUSIVE /tmp/seed.$ID.check.$id | head -2
done
git -C /repo checkout -- .

#!/bin/bash
# tools/mut.sh <ID> <file-in-repo> <sed-expr> : apply a mutation to /repo, run quick check, revert. For self-tests only.
ID=$1; F=$2; EXPR=$3
cd /repo || exit 2
if ! git diff --quiet; then echo "repo dirty"; exit 2; fi
sed -i -E "$EXPR" "$F"
if git diff --quiet; then echo "MUTATION DID NOT APPLY"; exit 2; fi
git diff | grep '^[+-]' | grep -v '^+++\|^---' | head -6
cd /verif && ./check $ID quick > /tmp/mut.$ID.out 2>&1; rc=$?
grep -c '^VIOLATION' /tmp/mut.$ID.out | sed 's/^/violations printed: /'
grep -m2 'what:' /tmp/mut.$ID.out
grep INCONCLUSIVE /tmp/mut.$ID.out | head -2
echo "rc=$rc"
git -C /repo checkout -- .

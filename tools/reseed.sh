#!/bin/bash
# tools/reseed.sh [seed-dir-name ...] : regression over the stored seeded changes. For each one: apply
# patch.rebased.diff (if present) or patch.diff to /repo, run ./check <property> quick, revert; one line
# per seed: "<name> rc=<rc> violations=<n>". Default: every directory under /verif/seeded.
# /repo must be clean and no sweep may be running. Check outputs go to /tmp/reseed/ (scratch).
cd /verif || exit 2
mkdir -p /tmp/reseed
names=("$@"); [ ${#names[@]} -eq 0 ] && names=($(ls seeded))
for n in "${names[@]}"; do
  d=/verif/seeded/$n; p=$d/patch.diff; [ -f $d/patch.rebased.diff ] && p=$d/patch.rebased.diff
  prop=$(python3 -c "import json;print(json.load(open('$d/meta.json'))['property'])")
  if ! git -C /repo diff --quiet; then echo "/repo dirty"; exit 2; fi
  if ! git -C /repo apply $p 2>/dev/null; then echo "$n DOES-NOT-APPLY"; continue; fi
  ./check $prop quick > /tmp/reseed/$n.out 2>&1; rc=$?
  git -C /repo checkout -- .; git -C /repo clean -fdq
  echo "$n rc=$rc violations=$(grep -c '^VIOLATION' /tmp/reseed/$n.out) $(grep -m1 -o 'INCONCLUSIVE.*' /tmp/reseed/$n.out | cut -c1-80)"
done

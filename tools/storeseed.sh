#!/bin/bash
# tools/storeseed.sh <worktree-id e.g. C07a> <dest e.g. C07-5a> <round> <change> <needs> <check_result>
# copies the sub-agent's _seed directory from $WT/<id> into /verif/seeded/<dest> and writes meta.json
set -eu
ID=$1; DEST=$2; ROUND=$3; CHANGE=$4; NEEDS=$5; RESULT=$6
S=${WT:-/tmp/wt5}/$ID/_seed; D=/verif/seeded/$DEST
mkdir -p $D
cp $S/patch.diff $D/; [ -e $S/patch.rebased.diff ] && cp $S/patch.rebased.diff $D/; [ -e $S/NOTES.md ] && cp $S/NOTES.md $D/
for f in $S/*_test.go; do [ -e "$f" ] && cp $f $D/$(basename $f).txt; done
python3 - "$D" "${ID:0:3}" "$ROUND" "$CHANGE" "$NEEDS" "$RESULT" "${WT:-/tmp/wt5}" "$ID" <<'PY'
import json,sys
d,prop,rnd,change,needs,res,wt,i=sys.argv[1:]
json.dump({"property":prop,"round":int(rnd),"change":change,"needs_to_manifest":needs,
 "confirmed_by_me":f"WT={wt} PROP={prop} tools/seedcheck.sh {i} <demo dir>: patch applies; go build ok; full suite passes with the change; demo fails with the change and passes without",
 "check_result":res,
 "author":"independent sub-agent given the property text, one-line descriptions of the earlier seeded changes for the property, a theme (a: optimisation gone wrong, b: refactoring gone wrong, c: defensive hardening gone wrong, d: feature / compatibility extension gone wrong) and a scratch worktree; prompt produced by tools/mkseedprompts.py"},
 open(d+"/meta.json","w"),indent=1,ensure_ascii=False)
PY
git -C /repo worktree remove --force ${WT:-/tmp/wt5}/$ID
rm -f ${WT:-/tmp/wt5}/$ID.prompt.txt
echo stored $D

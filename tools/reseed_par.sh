#!/bin/bash
# tools/reseed_par.sh <lanes> [seed-dir-name ...] : the regression of tools/reseed.sh, run in <lanes> parallel
# lanes. Each lane has its own scratch git worktree of /repo and its own scratch copy of the harness under
# /tmp/rl (vk.Root and the check script's V pointed at the copy), so /repo, /verif/bin and /verif/evidence
# are not touched. Lines "<name> rc=<rc> violations=<n>" are appended to /tmp/rl/out.<lane>; nothing that
# MANIFEST.json registers depends on this script or on /tmp/rl. Remove /tmp/rl afterwards (the script does,
# worktrees included).
set -u
lanes=$1; shift
names=("$@"); [ ${#names[@]} -eq 0 ] && names=($(cd /verif/seeded && ls -d */ | tr -d /))
rm -rf /tmp/rl; mkdir -p /tmp/rl; git -C /repo worktree prune
for l in $(seq 1 $lanes); do
  V=/tmp/rl/v$l; R=/tmp/rl/r$l
  git -C /repo worktree add -q --detach $R HEAD
  mkdir -p $V; cp -r /verif/harness /verif/check /verif/known_findings.json $V/
  sed -i "s|^V=/verif$|V=$V|" $V/check
  sed -i "s|Root = \"/verif\"|Root = \"$V\"|" $V/harness/vk/run.go
  : > /tmp/rl/out.$l
done
lane() {
  l=$1; shift; V=/tmp/rl/v$l; R=/tmp/rl/r$l
  for n in "$@"; do
    d=/verif/seeded/$n; p=$d/patch.diff; [ -f $d/patch.rebased.diff ] && p=$d/patch.rebased.diff
    prop=$(python3 -c "import json;print(json.load(open('$d/meta.json'))['property'])")
    if ! git -C $R apply $p 2>/dev/null; then echo "$n DOES-NOT-APPLY" >> /tmp/rl/out.$l; continue; fi
    VERIF_REPO=$R $V/check $prop quick > /tmp/rl/$n.out 2>&1; rc=$?
    git -C $R checkout -- .; git -C $R clean -fdq
    echo "$n rc=$rc violations=$(grep -c '^VIOLATION' /tmp/rl/$n.out) $(grep -m1 -o 'INCONCLUSIVE.*' /tmp/rl/$n.out | cut -c1-80)" >> /tmp/rl/out.$l
    [ $rc = 1 ] && rm -f /tmp/rl/$n.out
  done
}
i=0
for l in $(seq 1 $lanes); do
  mine=()
  for j in "${!names[@]}"; do [ $(( j % lanes + 1 )) = $l ] && mine+=("${names[$j]}"); done
  lane $l "${mine[@]}" &
done
wait
cat /tmp/rl/out.* | sort > /tmp/reseed_par.out
for l in $(seq 1 $lanes); do git -C /repo worktree remove --force /tmp/rl/r$l; rm -rf /tmp/rl/v$l; done
echo "RESEED-DONE $(grep -c 'rc=1' /tmp/reseed_par.out) caught of $(wc -l < /tmp/reseed_par.out)" >> /tmp/reseed_par.out

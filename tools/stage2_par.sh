#!/bin/bash
# WT=<root> tools/stage2_par.sh <lanes> <id ...> : stage 2 (apply a sub-agent's patch, run ./check <prop> quick,
# revert) for many seeds at once, in scratch lanes under /tmp/s2l (own git worktree of /repo and own copy of the
# CURRENT harness per lane; /repo, /verif/bin and /verif/evidence are not touched). One line per seed on stdout.
set -u
lanes=$1; shift; ids=("$@"); WT=${WT:?}
rm -rf /tmp/s2l; mkdir -p /tmp/s2l; git -C /repo worktree prune
for l in $(seq 1 $lanes); do
  V=/tmp/s2l/v$l; R=/tmp/s2l/r$l
  git -C /repo worktree add -q --detach $R HEAD
  mkdir -p $V; cp -r /verif/harness /verif/check /verif/known_findings.json $V/
  sed -i "s|^V=/verif$|V=$V|" $V/check
  sed -i "s|Root = \"/verif\"|Root = \"$V\"|" $V/harness/vk/run.go
done
lane() {
  l=$1; shift; V=/tmp/s2l/v$l; R=/tmp/s2l/r$l
  for id in "$@"; do
    prop=${id:0:3}; p=$WT/$id/_seed/patch.diff; [ -f $WT/$id/_seed/patch.rebased.diff ] && p=$WT/$id/_seed/patch.rebased.diff
    if ! git -C $R apply $p 2>/dev/null; then echo "$id PATCH DOES NOT APPLY"; continue; fi
    VERIF_REPO=$R $V/check $prop quick > /tmp/s2l/$id.out 2>&1; rc=$?
    git -C $R checkout -- .; git -C $R clean -fdq
    echo "$id check $prop: rc=$rc violations=$(grep -c '^VIOLATION' /tmp/s2l/$id.out) $(grep -m1 'what:' /tmp/s2l/$id.out | cut -c1-200) $(grep -m1 -o 'INCONCLUSIVE.*' /tmp/s2l/$id.out | cut -c1-80)"
  done
}
for l in $(seq 1 $lanes); do
  mine=()
  for j in "${!ids[@]}"; do [ $(( j % lanes + 1 )) = $l ] && mine+=("${ids[$j]}"); done
  [ ${#mine[@]} -gt 0 ] && lane $l "${mine[@]}" &
done
wait
for l in $(seq 1 $lanes); do git -C /repo worktree remove --force /tmp/s2l/r$l; done
rm -rf /tmp/s2l

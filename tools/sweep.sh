#!/bin/bash
# tools/sweep.sh <tier> <logfile> [seed] : run every property's check at the tier, one line per property, ALLDONE at the end.
cd /verif || exit 2
tier=$1; log=$2; seed=${3:-1}
: > $log
for p in $(seq -w 1 20); do
  t0=$(date +%s)
  VERIF_SEED=$seed ./check C$p $tier > /tmp/sweep.C$p.out 2>&1; rc=$?
  echo "C$p rc=$rc $(grep -m1 SUMMARY /tmp/sweep.C$p.out) $(grep -c '^VIOLATION' /tmp/sweep.C$p.out) violations; $(grep -m1 INCONCLUSIVE /tmp/sweep.C$p.out | cut -c1-120) wall=$(( $(date +%s) - t0 ))s" >> $log
done
echo ALLDONE >> $log

#!/usr/bin/env python3
"""tools/mkseedprompts.py <root-dir> <suffix>=<theme text> [<suffix>=<theme text> ...]

Prepares one scratch git worktree of /repo and one prompt file per (property, suffix) under
<root-dir> (outside /repo and /verif), for independent sub-agents that write a realistic
breaking change. A prompt contains only the property text, one-line descriptions of the
changes already stored under /verif/seeded for that property, and the theme; nothing else
from /verif. Worktrees are removed again by tools/storeseed.sh.
"""
import glob
import json
import os
import subprocess
import sys

root = sys.argv[1]
themes = dict(a.split("=", 1) for a in sys.argv[2:])
os.makedirs(root, exist_ok=True)
props = [json.loads(l) for l in open("/verif/properties.jsonl")]

TEMPLATE = """You are helping to test a verification harness for the Go repository tdakkota/docker-logql
(a Docker CLI plugin that embeds a LogQL lexer, parser and evaluation engine over container logs).
You have your own scratch git worktree of the repository at {wt}. Work ONLY inside it. Never read or
touch /repo or /verif, and read nothing outside your worktree except this file. Do NOT use `git stash`
(stash refs are shared between worktrees): to revert use `git diff > file` and `git apply -R file` or
`git checkout -- .`.

Every shell call needs:  export GOFLAGS=-mod=mod GOPROXY=off GOSUMDB=off GOTOOLCHAIN=local   (no network).

THE PROPERTY (a guarantee users of the tool rely on)
  {id} - {title}
  Statement: {statement}
  Holds: {quant}

YOUR TASK
Make ONE realistic change to the non-test source code that BREAKS this property, such that
  * `go build ./...` still succeeds,
  * the whole existing test suite still passes unedited: `go test -vet=off -count=1 ./...`,
  * it reads like something a competent developer could plausibly have written and a reviewer could
    plausibly have approved. Theme for this change: {theme}
  * it is subtle: the property is violated only for some inputs / schedules, ordinary use looks fine;
  * at most about 30 changed lines; no changes to *_test.go files, go.mod/go.sum, or generated code
    (internal/lokiapi/oas_*), no new dependencies.
It must differ in mechanism (and preferably in the function touched) from these changes that were
already delivered for this property:
{earlier}

Read the code the property is anchored in first, then choose the spot yourself.

DELIVERABLES, in {wt}/_seed/ :
  patch.diff               `git diff` of your change; must apply with `git apply` on the clean checkout
  zz_seed_demo_test.go     a Go test that FAILS with your change and PASSES without it. It must drive the
                           code through a realistic entry point (Engine.Eval, dockerlog.Querier with a fake
                           Docker client, logql.Parse, the cmd functions ...) and assert what the property
                           says, not an internal detail. State its package / directory in NOTES.md.
  NOTES.md                 what you changed, why it breaks the property, exactly what it takes to manifest,
                           what stays unaffected, where to put the demo and how to run it.

VERIFY BEFORE YOU FINISH (and say so in your final reply):
  with the change: build OK, full suite passes, demo FAILS;  without it: demo PASSES;
  `git apply --check _seed/patch.diff` succeeds on the clean tree.
Leave the worktree reverted and the demo removed from the source tree: `git status --short` shows only `?? _seed/`.
Final reply: a short summary (change, why it breaks the property, what it needs, what you verified).
"""

for p in props:
    pid = p["id"]
    earlier = []
    for d in sorted(glob.glob(f"/verif/seeded/{pid}*/meta.json")):
        m = json.load(open(d))
        earlier.append("  - " + m.get("change", "").strip())
    for suf, theme in themes.items():
        name = pid + suf
        wt = os.path.join(root, name)
        if not os.path.isdir(wt):
            subprocess.run(["git", "-C", "/repo", "worktree", "add", "-q", "--detach", wt, "HEAD"], check=True)
        q = p.get("quantifier", {})
        text = TEMPLATE.format(wt=wt, id=pid, title=p.get("title", ""), statement=p["statement"],
                               quant=q.get("text", "") if isinstance(q, dict) else str(q),
                               theme=theme, earlier="\n".join(earlier) or "  (none)")
        with open(os.path.join(root, name + ".prompt.txt"), "w") as fh:
            fh.write(text)
print("prepared", len(props) * len(themes), "worktrees under", root)

#!/usr/bin/env python3
"""kf.py add <property> <key> <status known|fixed> <commit-or-> <what> [witness-json] — edit known_findings.json by hand tool (never at check run time)."""
import json, sys
p = "/verif/known_findings.json"
fs = json.load(open(p))
_, cmd, prop, key, status, commit, what, *rest = sys.argv
e = {"property": prop, "key": key, "status": status, "what": what}
if commit != "-":
    e["commit"] = commit
if rest:
    e["witness"] = json.loads(rest[0])
e["line"] = ("fixed: property=%s %s %s" % (prop, commit, what)) if status == "fixed" else ("known: property=%s %s" % (prop, what))
fs = [f for f in fs if not (f["property"] == prop and f["key"] == key)]
fs.append(e)
json.dump(fs, open(p, "w"), indent=1)
print(e["line"])
